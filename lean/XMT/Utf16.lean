/-
  XMT.Utf16 — model of device/winapi/utf16.go (UTF-16 encoders/decoder, FnvHash) and of the
  registry value decoders of device/regedit/entry.go (ToString / ToStringList / ToInteger /
  ToBinary), together with the *reference* definitions they are compared with (Unicode UTF-16
  encoding form D91 with U+FFFD substitution, as Go's unicode/utf16; 32-bit FNV-1).

  Conventions
  * a Go `rune` (int32) is an `Int`; a `uint16` is a `UInt16`; `uint16(x)` is `u16 x` (x mod 2^16).
  * a Go string is its byte list; `[]rune(s)` (the Go runtime's UTF-8 decoding, runtime/utf8.go
    `decoderune`) is modelled by `utf8Decode` and compared with the real conversion by the
    differential run. `utf16FromStringB` is `UTF16FromString` on the bytes; `utf16FromString` is the
    same function on the rune list `[]rune(s)` (they agree: `utf16FromStringB_eq_runes`).
    `string([]rune)` (used by `UTF16ToString`) is not modelled: the decoders return rune lists.
  * `make([]T, n)` is `List.replicate n 0`; `b[i] = v` is `wr b i v`, which is `Outcome.panic` when
    `i` is out of range — nothing is totalised. `b[:n]` panics when `n > len(b)`.
  * the registry decoders read the value's bytes only through `u16At` / `d[i]?`; an index outside
    the value is `Outcome.panic "read-oob"` (in the real code it would be a silent over-read through
    the unsafe slice, which is exactly what the property excludes).
  Core-only.
-/
import XMT.Base
import XMT.Generated.Facts

namespace XMT.Utf16
open XMT

inductive Err | einval | unexpectedType | unexpectedSize
  deriving DecidableEq, Repr

/-- Result of running a piece of Go code: a normal return, an `error` return, or a run-time panic. -/
inductive Outcome (α : Type) where
  | ok (a : α)
  | err (e : Err)
  | panic (site : String)
  deriving DecidableEq, Repr

abbrev U16s := List UInt16

/-! ### constants (regenerated from the source: `Facts.*`) -/

def utfSelf : Int := (Facts.utfSelf : Nat)
def utfSurgA : Int := (Facts.utfSurgA : Nat)
def utfSurgB : Int := (Facts.utfSurgB : Nat)
def utfSurgC : Int := (Facts.utfSurgC : Nat)
def utfRuneMax : Int := (Facts.utfRuneMax : Nat)
def utfReplacement : Int := (Facts.utfReplacement : Nat)

/-- Go's conversion `uint16(x)` of a signed integer: the low 16 bits. -/
def u16 (x : Int) : UInt16 := UInt16.ofNat (x % 65536).toNat

/-- `b[i] = v` -/
def wr {α : Type} (b : List α) (i : Nat) (v : α) : Outcome (List α) :=
  if i < b.length then .ok (b.set i v) else .panic "index"

/-- `b[:n]` -/
def sliceTo {α : Type} (b : List α) (n : Nat) : Outcome (List α) :=
  if n ≤ b.length then .ok (b.take n) else .panic "slice-bounds"

/-! ### encoders -/

/-- `utf16EncodeRune`:
    `if r < utfSelf || r > utfRuneMax { return repl, repl }; r -= utfSelf;`
    `return uint16(utfSurgA + (r>>10)&0x3FF), uint16(utfSurgB + r&0x3FF)`
    (Go precedence: `&` and `>>` bind tighter than `+`). -/
def utf16EncodeRune (r : Int) : UInt16 × UInt16 :=
  if r < utfSelf ∨ r > utfRuneMax then (u16 utfReplacement, u16 utfReplacement)
  else
    let r' : Nat := (r - utfSelf).toNat
    (u16 (utfSurgA + (((r' >>> 10) &&& 0x3FF : Nat) : Int)), u16 (utfSurgB + ((r' &&& 0x3FF : Nat) : Int)))

/-- One iteration of the `switch` in the encoding loops (without the NUL case). -/
def encStep (r : Int) (b : U16s) (n : Nat) : Outcome (U16s × Nat) :=
  if (0 ≤ r ∧ r < utfSurgA) ∨ (utfSurgC ≤ r ∧ r < utfSelf) then
    match wr b n (u16 r) with
    | .ok b => .ok (b, n + 1)
    | .err e => .err e
    | .panic p => .panic p
  else if utfSelf ≤ r ∧ r ≤ utfRuneMax then
    -- b[n], b[n+1] = utf16EncodeRune(s[i])
    match wr b n (utf16EncodeRune r).1 with
    | .ok b =>
      match wr b (n + 1) (utf16EncodeRune r).2 with
      | .ok b => .ok (b, n + 2)
      | .err e => .err e
      | .panic p => .panic p
    | .err e => .err e
    | .panic p => .panic p
  else
    match wr b n (u16 utfReplacement) with
    | .ok b => .ok (b, n + 1)
    | .err e => .err e
    | .panic p => .panic p

/-- Sizing loop of `UTF16EncodeStd`: `n := len(s); for i := range s { if s[i] < utfSelf {continue}; n++ }`. -/
def sizeStd : List Int → Nat → Nat
  | [], n => n
  | r :: rest, n => if r < utfSelf then sizeStd rest n else sizeStd rest (n + 1)

/-- Encoding loop of `UTF16EncodeStd` (`for n = 0; i < len(s); i++`), the list being `s[i:]`. -/
def encStdLoop : List Int → U16s → Nat → Outcome (U16s × Nat)
  | [], b, n => .ok (b, n)
  | r :: rest, b, n =>
    match encStep r b n with
    | .ok (b', n') => encStdLoop rest b' n'
    | .err e => .err e
    | .panic p => .panic p

/-- `UTF16EncodeStd(s []rune) []uint16`. -/
def utf16EncodeStd (s : List Int) : Outcome U16s :=
  match encStdLoop s (List.replicate (sizeStd s s.length) 0) 0 with
  | .ok (b, n) => sliceTo b n
  | .err e => .err e
  | .panic p => .panic p

/-- Sizing loop of `utf16Encode`; `s[i] == 0 && i+1 < len(s)` is "0 and not the last rune". -/
def sizeEnc : List Int → Nat → Outcome Nat
  | [], n => .ok n
  | r :: rest, n =>
    if r = 0 ∧ rest ≠ [] then .err .einval
    else if r < utfSelf then sizeEnc rest n
    else sizeEnc rest (n + 1)

/-- Encoding loop of `utf16Encode`. -/
def encLoop : List Int → U16s → Nat → Outcome (U16s × Nat)
  | [], b, n => .ok (b, n)
  | r :: rest, b, n =>
    if r = 0 ∧ rest ≠ [] then .err .einval
    else
      match encStep r b n with
      | .ok (b', n') => encLoop rest b' n'
      | .err e => .err e
      | .panic p => .panic p

/-- `utf16Encode(s []rune) ([]uint16, error)`. -/
def utf16Encode (s : List Int) : Outcome U16s :=
  match sizeEnc s s.length with
  | .ok sz =>
    match encLoop s (List.replicate sz 0) 0 with
    | .ok (b, n) => sliceTo b n
    | .err e => .err e
    | .panic p => .panic p
  | .err e => .err e
  | .panic p => .panic p

/-- A 0 rune somewhere before the last position (`s[i] == 0 && i+1 < len(s)` for some `i`). -/
def innerNul : List Int → Bool
  | [] => false
  | r :: rest => (r == 0 && !rest.isEmpty) || innerNul rest

/-- `UTF16FromString(s string)`, on `rs = []rune(s)`:
    `if len(s) == 0 { return []uint16{0}, nil }; return utf16Encode([]rune(s + "\x00"))`. -/
def utf16FromString (rs : List Int) : Outcome U16s :=
  if rs.length = 0 then .ok [0] else utf16Encode (rs ++ [0])

/-! ### decoder -/

/-- `utf16DecodeRune`: `(r1-utfSurgA)<<10 | (r2 - utfSurgB) + utfSelf`
    (Go precedence: `|` and `+` are the same level, left associative). -/
def utf16DecodeRune (r1 r2 : Int) : Int :=
  if utfSurgA ≤ r1 ∧ r1 < utfSurgB ∧ utfSurgB ≤ r2 ∧ r2 < utfSurgC then
    ((((r1 - utfSurgA).toNat <<< 10) ||| (r2 - utfSurgB).toNat : Nat) : Int) + utfSelf
  else utfReplacement

def rn (u : UInt16) : Int := (u.toNat : Int)

/-- Body of one `UTF16Decode` iteration that stores rune `v` at `b[n]` and continues on `k`. -/
def decPut (b : List Int) (n : Nat) (v : Int)
    (k : List Int → Nat → Outcome (List Int × Nat)) : Outcome (List Int × Nat) :=
  match wr b n v with
  | .ok b => k b (n + 1)
  | .err e => .err e
  | .panic p => .panic p

/-- Loop of `UTF16Decode` (list = `s[i:]`, `b`/`n` the output buffer and index):
    `switch r := s[i]; { case r == 0: break loop; case r < utfSurgA, utfSurgC <= r: b[n] = rune(r);`
    `case utfSurgA <= r && r < utfSurgB && i+1 < len(s) && utfSurgB <= s[i+1] && s[i+1] < utfSurgC:`
    `b[n] = utf16DecodeRune(rune(r), rune(s[i+1])); i++; default: b[n] = utfReplacement }; n++`. -/
def decLoop : U16s → List Int → Nat → Outcome (List Int × Nat)
  | [], b, n => .ok (b, n)
  | [r], b, n =>
    if r = 0 then .ok (b, n)
    else if rn r < utfSurgA ∨ utfSurgC ≤ rn r then decPut b n (rn r) (decLoop [])
    else decPut b n utfReplacement (decLoop [])               -- i+1 < len(s) is false
  | r :: r2 :: rest, b, n =>
    if r = 0 then .ok (b, n)
    else if rn r < utfSurgA ∨ utfSurgC ≤ rn r then decPut b n (rn r) (decLoop (r2 :: rest))
    else if utfSurgA ≤ rn r ∧ rn r < utfSurgB ∧ utfSurgB ≤ rn r2 ∧ rn r2 < utfSurgC then
      decPut b n (utf16DecodeRune (rn r) (rn r2)) (decLoop rest)   -- i++ inside the case
    else decPut b n utfReplacement (decLoop (r2 :: rest))

/-- `UTF16Decode(s []uint16) []rune`. -/
def utf16Decode (s : U16s) : Outcome (List Int) :=
  match decLoop s (List.replicate s.length 0) 0 with
  | .ok (b, n) => sliceTo b n
  | .err e => .err e
  | .panic p => .panic p

/-! ### reference: UTF-16 encoding form (Unicode D91), ill-formed input replaced by U+FFFD -/

def isScalar (r : Int) : Bool := (0 ≤ r && r < 0xD800) || (0xE000 ≤ r && r ≤ 0x10FFFF)

def refEncRune (r : Int) : U16s :=
  if (0 ≤ r ∧ r < 0xD800) ∨ (0xE000 ≤ r ∧ r < 0x10000) then [UInt16.ofNat r.toNat]
  else if 0x10000 ≤ r ∧ r ≤ 0x10FFFF then
    [UInt16.ofNat (0xD800 + (r.toNat - 0x10000) / 1024), UInt16.ofNat (0xDC00 + (r.toNat - 0x10000) % 1024)]
  else [0xFFFD]

def refEncode (s : List Int) : U16s := s.flatMap refEncRune

def isHigh (u : UInt16) : Bool := 0xD800 ≤ u.toNat && u.toNat < 0xDC00
def isLow (u : UInt16) : Bool := 0xDC00 ≤ u.toNat && u.toNat < 0xE000

def refDecode : U16s → List Int
  | [] => []
  | [u] => if isHigh u || isLow u then [0xFFFD] else [(u.toNat : Int)]
  | u :: l :: rest =>
    if isHigh u then
      if isLow l then
        ((0x10000 + (u.toNat - 0xD800) * 1024 + (l.toNat - 0xDC00) : Nat) : Int) :: refDecode rest
      else 0xFFFD :: refDecode (l :: rest)
    else if isLow u then 0xFFFD :: refDecode (l :: rest)
    else (u.toNat : Int) :: refDecode (l :: rest)

/-- Well-formed UTF-16: every surrogate is part of a high/low pair. -/
def wellFormed16 : U16s → Bool
  | [] => true
  | [u] => !(isHigh u || isLow u)
  | u :: l :: rest =>
    if isHigh u then isLow l && wellFormed16 rest
    else if isLow u then false
    else wellFormed16 (l :: rest)

/-- The part of a buffer before the first NUL word. -/
def untilNul (s : U16s) : U16s := s.takeWhile (· ≠ 0)

/-! ### Go strings: the runtime's `[]rune(s)` conversion (UTF-8 decoding, runtime/utf8.go `decoderune`)

A Go string is an arbitrary byte string. `for _, r := range s` / `[]rune(s)` yields, at each
position, an ASCII byte as itself, a well-formed 2/3/4-byte sequence as its code point (overlong
forms, surrogates and values above U+10FFFF are not well-formed), and otherwise U+FFFD for ONE byte. -/

/-- `locb <= b && b <= hicb`: payload of a continuation byte, if it is one. -/
def cont? : Option UInt8 → Option Nat
  | some b => if 0x80 ≤ b.toNat ∧ b.toNat ≤ 0xBF then some (b.toNat % 64) else none
  | none => none

/-- First rune of a non-empty string and the number of bytes it consumed. -/
def utf8First : Bytes → Int × Nat
  | [] => (0xFFFD, 1)
  | b0 :: t =>
    let c := b0.toNat
    if c < 0x80 then ((c : Int), 1)
    else if 0xC0 ≤ c ∧ c < 0xE0 then
      match cont? t[0]? with
      | some x1 =>
        let r := (c % 32) * 64 + x1
        if 0x7F < r then ((r : Int), 2) else (0xFFFD, 1)
      | none => (0xFFFD, 1)
    else if 0xE0 ≤ c ∧ c < 0xF0 then
      match cont? t[0]?, cont? t[1]? with
      | some x1, some x2 =>
        let r := (c % 16) * 4096 + x1 * 64 + x2
        if 0x7FF < r ∧ ¬ (0xD800 ≤ r ∧ r ≤ 0xDFFF) then ((r : Int), 3) else (0xFFFD, 1)
      | _, _ => (0xFFFD, 1)
    else if 0xF0 ≤ c ∧ c < 0xF8 then
      match cont? t[0]?, cont? t[1]?, cont? t[2]? with
      | some x1, some x2, some x3 =>
        let r := (c % 8) * 262144 + x1 * 4096 + x2 * 64 + x3
        if 0xFFFF < r ∧ r ≤ 0x10FFFF then ((r : Int), 4) else (0xFFFD, 1)
      | _, _, _ => (0xFFFD, 1)
    else (0xFFFD, 1)

/-- `[]rune(s)` with fuel (every step consumes at least one byte, so `len(s)` steps suffice). -/
def utf8DecodeF : Nat → Bytes → List Int
  | 0, _ => []
  | f + 1, s =>
    match s with
    | [] => []
    | b :: t => (utf8First (b :: t)).1 :: utf8DecodeF f ((b :: t).drop (utf8First (b :: t)).2)

/-- `[]rune(s)`. -/
def utf8Decode (s : Bytes) : List Int := utf8DecodeF s.length s

/-- `UTF16FromString(s string)` on the bytes of the string:
    `if len(s) == 0 { return []uint16{0}, nil }; return utf16Encode([]rune(s + "\x00"))`. -/
def utf16FromStringB (s : Bytes) : Outcome U16s :=
  if s.length = 0 then .ok [0] else utf16Encode (utf8Decode (s ++ [0]))

/-! ### FnvHash -/

/-- `h := uint32(basis); for i := 0; i < len(n); i++ { h *= prime; h ^= uint32(n[i]) }` on uint32. -/
def fnvHash (n : Bytes) : UInt32 :=
  n.foldl (fun h b => (h * UInt32.ofNat Facts.fnvPrime) ^^^ UInt32.ofNat b.toNat) (UInt32.ofNat Facts.fnvBasis)

/-- 32-bit FNV-1 (Fowler–Noll–Vo): offset basis 0x811C9DC5, prime 0x01000193, multiply then xor. -/
def fnv1Ref (n : Bytes) : Nat :=
  n.foldl (fun h b => (h * 0x01000193 % 2 ^ 32) ^^^ b.toNat) 0x811C9DC5

/-! ### registry value decoders (device/regedit/entry.go) -/

/-- Word `k` of the `[]uint16` view laid over the value's bytes (little-endian host). -/
def u16At (d : Bytes) (k : Nat) : Outcome UInt16 :=
  match d[2 * k]?, d[2 * k + 1]? with
  | some lo, some hi => .ok (UInt16.ofNat (lo.toNat ||| (hi.toNat <<< 8)))
  | _, _ => .panic "read-oob"

/-- The first `cnt` words of the view (all of them are read here; the real code reads a subset,
    stopping at the first NUL). -/
def viewU16 (d : Bytes) : Nat → Outcome U16s
  | 0 => .ok []
  | k + 1 =>
    match viewU16 d k with
    | .ok l =>
      match u16At d k with
      | .ok w => .ok (l ++ [w])
      | .err e => .err e
      | .panic p => .panic p
    | .err e => .err e
    | .panic p => .panic p

/-- `(*[1 << 29]uint16)(unsafe.Pointer(&e.Data[0]))[: len(e.Data)/2 : len(e.Data)/2]` -/
def regView (d : Bytes) : Outcome U16s :=
  match d[0]? with
  | none => .panic "index"                                       -- &e.Data[0]
  | some _ =>
    if d.length / 2 > Facts.regArrayCap then .panic "slice-bounds"
    else viewU16 d (d.length / 2)

/-- `Entry.ToString`. -/
def entryToString (ty : Nat) (d : Bytes) : Outcome (List Int) :=
  if ty ≠ Facts.regTypeString ∧ ty ≠ Facts.regTypeExpandString then .err .unexpectedType
  else if d.length < 3 then .err .unexpectedSize
  else
    match regView d with
    | .ok v => utf16Decode v
    | .err e => .err e
    | .panic p => .panic p

/-- `Entry.ToBinary`. -/
def entryToBinary (ty : Nat) (d : Bytes) : Outcome Bytes :=
  if ty ≠ Facts.regTypeBinary then .err .unexpectedType else .ok d

/-- `Entry.ToInteger` (`_ = e.Data[3]` is the bounds-check hint, evaluated first). -/
def entryToInteger (ty : Nat) (d : Bytes) : Outcome Nat :=
  if ty = Facts.regTypeDword then
    if d.length ≠ 4 then .err .unexpectedSize
    else
      match d[3]?, d[0]?, d[1]?, d[2]? with
      | some b3, some b0, some b1, some b2 =>
        .ok (b0.toNat ||| (b1.toNat <<< 8) ||| (b2.toNat <<< 16) ||| (b3.toNat <<< 24))
      | _, _, _, _ => .panic "index"
  else if ty = Facts.regTypeQword then
    if d.length ≠ 8 then .err .unexpectedSize
    else
      match d[7]?, d[0]?, d[1]?, d[2]?, d[3]?, d[4]?, d[5]?, d[6]? with
      | some b7, some b0, some b1, some b2, some b3, some b4, some b5, some b6 =>
        .ok (b0.toNat ||| (b1.toNat <<< 8) ||| (b2.toNat <<< 16) ||| (b3.toNat <<< 24) |||
             (b4.toNat <<< 32) ||| (b5.toNat <<< 40) ||| (b6.toNat <<< 48) ||| (b7.toNat <<< 56))
      | _, _, _, _, _, _, _, _ => .panic "index"
  else .err .unexpectedType

/-- `v[n:i]` -/
def slice {α : Type} (v : List α) (n i : Nat) : Outcome (List α) :=
  if n ≤ i ∧ i ≤ v.length then .ok ((v.drop n).take (i - n)) else .panic "slice-bounds"

/-- Loop of `ToStringList`: `for i, n := 0, 0; i < len(v); i++ { if v[i] > 0 {continue};
    r = append(r, string(UTF16Decode(v[n:i]))); n = i + 1 }` — the list is `v[i:]`. -/
def slLoop (v : U16s) : U16s → Nat → Nat → List (List Int) → Outcome (List (List Int))
  | [], _, _, acc => .ok acc
  | x :: rest, i, n, acc =>
    if x.toNat > 0 then slLoop v rest (i + 1) n acc
    else
      match slice v n i with
      | .ok seg =>
        match utf16Decode seg with
        | .ok rs => slLoop v rest (i + 1) (i + 1) (acc ++ [rs])
        | .err e => .err e
        | .panic p => .panic p
      | .err e => .err e
      | .panic p => .panic p

/-- `Entry.ToStringList`. -/
def entryToStringList (ty : Nat) (d : Bytes) : Outcome (List (List Int)) :=
  if ty ≠ Facts.regTypeStringList then .err .unexpectedType
  else if d.length < 3 then .err .unexpectedSize
  else
    match regView d with
    | .ok v =>
      if v.length = 0 then .ok []
      else
        match v[v.length - 1]? with
        | none => .panic "index"
        | some last =>
          let v' := if last = 0 then v.take (v.length - 1) else v
          slLoop v' v' 0 0 []
    | .err e => .err e
    | .panic p => .panic p

/-- Reference splitting of a MULTI_SZ word list: the NUL-terminated segments, in order (an
    unterminated tail is not a segment). -/
def segsAux : U16s → U16s → List U16s
  | _, [] => []
  | cur, x :: rest => if x = 0 then cur :: segsAux [] rest else segsAux (cur ++ [x]) rest

def segs (v : U16s) : List U16s := segsAux [] v

/-- The word list `ToStringList` splits: one final NUL word (the list terminator) is dropped. -/
def stripLastNul (v : U16s) : U16s := if v.getLast? = some 0 then v.dropLast else v

/-- Little-endian value of a byte string. -/
def leNat : Bytes → Nat
  | [] => 0
  | b :: rest => b.toNat + 256 * leNat rest

/-- Little-endian words of a byte string (a trailing odd byte is ignored). -/
def leWords : Bytes → U16s
  | lo :: hi :: rest => UInt16.ofNat (lo.toNat + 256 * hi.toNat) :: leWords rest
  | _ => []

end XMT.Utf16
