/-
  XMT.Utf16Decode — helper lemmas for the decoder half of C20: the literal `UTF16Decode` loop
  equals the reference decoder on the part before the first NUL.
-/
import XMT.Utf16Lemmas
namespace XMT.Utf16
open XMT

theorem decPut_pad (pre : List Int) (k : Nat) (v : Int)
    (K : List Int → Nat → Outcome (List Int × Nat)) :
    decPut (pre ++ List.replicate (k + 1) 0) pre.length v K
      = K ((pre ++ [v]) ++ List.replicate k 0) (pre.length + 1) := by
  unfold decPut
  rw [wr_pad]

theorem untilNul_cons (r : UInt16) (t : U16s) :
    untilNul (r :: t) = if r = 0 then [] else r :: untilNul t := by
  unfold untilNul
  by_cases h : r = 0 <;> simp [List.takeWhile, h]

theorem isHigh_iff (u : UInt16) : isHigh u = true ↔ (55296 ≤ u.toNat ∧ u.toNat < 56320) := by
  simp [isHigh]
theorem isLow_iff (u : UInt16) : isLow u = true ↔ (56320 ≤ u.toNat ∧ u.toNat < 57344) := by
  simp [isLow]

theorem refDecode_norm (u : UInt16) (t : U16s) (hn : ¬ isHigh u = true) (hl : ¬ isLow u = true) :
    refDecode (u :: t) = (u.toNat : Int) :: refDecode t := by
  cases t with
  | nil => simp [refDecode, hn, hl]
  | cons l t => simp [refDecode, hn, hl]

theorem refDecode_low (u : UInt16) (t : U16s) (hl : isLow u = true) :
    refDecode (u :: t) = 0xFFFD :: refDecode t := by
  have hn : ¬ isHigh u = true := by
    rw [isHigh_iff]; rw [isLow_iff] at hl; omega
  cases t with
  | nil => simp [refDecode, hl]
  | cons l t => simp [refDecode, hn, hl]

theorem refDecode_high_nil (u : UInt16) (h : isHigh u = true) : refDecode [u] = [0xFFFD] := by
  simp [refDecode, h]

theorem refDecode_high_nolow (u l : UInt16) (t : U16s) (h : isHigh u = true) (hl : ¬ isLow l = true) :
    refDecode (u :: l :: t) = 0xFFFD :: refDecode (l :: t) := by
  simp [refDecode, h, hl]

theorem refDecode_pair (u l : UInt16) (t : U16s) (h : isHigh u = true) (hl : isLow l = true) :
    refDecode (u :: l :: t)
      = ((0x10000 + (u.toNat - 0xD800) * 1024 + (l.toNat - 0xDC00) : Nat) : Int) :: refDecode t := by
  simp [refDecode, h, hl]

theorem decodeRune_pair (u l : UInt16) (h : isHigh u = true) (hl : isLow l = true) :
    utf16DecodeRune (rn u) (rn l)
      = ((0x10000 + (u.toNat - 0xD800) * 1024 + (l.toNat - 0xDC00) : Nat) : Int) := by
  rw [isHigh_iff] at h; rw [isLow_iff] at hl
  unfold utf16DecodeRune rn
  simp only [utfSurgA_eq, utfSurgB_eq, utfSurgC_eq, utfSelf_eq]
  have hc : (55296 : Int) ≤ ↑u.toNat ∧ (↑u.toNat : Int) < 56320 ∧ (56320 : Int) ≤ ↑l.toNat ∧ (↑l.toNat : Int) < 57344 := by
    omega
  rw [if_pos hc]
  have e1 : ((u.toNat : Int) - 55296).toNat = u.toNat - 55296 := by omega
  have e2 : ((l.toNat : Int) - 56320).toNat = l.toNat - 56320 := by omega
  rw [e1, e2, Nat.or_comm, or_shl_eq_add _ _ 10 (by omega)]
  rw [show (2:Nat)^10 = 1024 from rfl]
  omega


theorem rn_norm_iff (r : UInt16) :
    (rn r < utfSurgA ∨ utfSurgC ≤ rn r) ↔ (¬ isHigh r = true ∧ ¬ isLow r = true) := by
  rw [isHigh_iff, isLow_iff]; unfold rn; simp only [utfSurgA_eq, utfSurgC_eq]; omega

theorem rn_pair_iff (r r2 : UInt16) :
    (utfSurgA ≤ rn r ∧ rn r < utfSurgB ∧ utfSurgB ≤ rn r2 ∧ rn r2 < utfSurgC)
      ↔ (isHigh r = true ∧ isLow r2 = true) := by
  rw [isHigh_iff, isLow_iff]; unfold rn
  simp only [utfSurgA_eq, utfSurgB_eq, utfSurgC_eq]; omega

theorem refDecode_len_le : ∀ (n : Nat) (s : U16s), s.length ≤ n → (refDecode s).length ≤ s.length := by
  intro n
  induction n with
  | zero => intro s h; cases s with
    | nil => simp [refDecode]
    | cons a t => simp at h
  | succ n ih =>
    intro s h
    match s with
    | [] => simp [refDecode]
    | [u] => simp only [refDecode]; split <;> simp
    | u :: l :: t =>
      simp only [List.length_cons] at h
      have h1 := ih (l :: t) (by simp; omega)
      have h2 := ih t (by omega)
      simp only [refDecode]
      split
      · split
        · simp only [List.length_cons]; omega
        · simp only [List.length_cons] at h1 ⊢; omega
      · split
        · simp only [List.length_cons] at h1 ⊢; omega
        · simp only [List.length_cons] at h1 ⊢; omega


theorem decLoop_pad : ∀ (m : Nat) (s : U16s), s.length ≤ m → ∀ (pre : List Int) (k : Nat), s.length ≤ k →
    decLoop s (pre ++ List.replicate k 0) pre.length
      = .ok ((pre ++ refDecode (untilNul s)) ++ List.replicate (k - (refDecode (untilNul s)).length) 0,
             pre.length + (refDecode (untilNul s)).length) := by
  intro m
  induction m with
  | zero =>
    intro s h pre k _
    cases s with
    | nil => simp [decLoop, untilNul, refDecode]
    | cons a t => simp at h
  | succ m ih =>
    intro s h pre k hk
    match s with
    | [] => simp [decLoop, untilNul, refDecode]
    | [r] =>
      simp only [List.length_singleton] at hk
      obtain ⟨k', rfl⟩ : ∃ k', k = k' + 1 := ⟨k - 1, by omega⟩
      unfold decLoop
      rw [untilNul_cons]
      by_cases h0 : r = 0
      · simp [h0, refDecode]
      · rw [if_neg h0, if_neg h0]
        have hnil : untilNul [] = [] := rfl
        rw [hnil]
        by_cases hn : rn r < utfSurgA ∨ utfSurgC ≤ rn r
        · rw [if_pos hn, decPut_pad]
          have ⟨a, b⟩ := (rn_norm_iff r).mp hn
          rw [refDecode_norm r [] a b]
          simp [decLoop, refDecode, rn]
        · rw [if_neg hn, decPut_pad]
          have hs : isHigh r = true ∨ isLow r = true := by
            have := (not_congr (rn_norm_iff r)).mp hn
            by_cases x : isHigh r = true
            · exact Or.inl x
            · by_cases y : isLow r = true
              · exact Or.inr y
              · exact absurd ⟨x, y⟩ this
          have : refDecode [r] = [0xFFFD] := by
            rcases hs with x | y
            · exact refDecode_high_nil r x
            · simpa [refDecode] using refDecode_low r [] y
          rw [this]
          simp [decLoop]
    | r :: r2 :: rest =>
      simp only [List.length_cons] at h hk
      obtain ⟨k', rfl⟩ : ∃ k', k = k' + 1 := ⟨k - 1, by omega⟩
      unfold decLoop
      rw [untilNul_cons]
      by_cases h0 : r = 0
      · simp [h0, refDecode]
      · rw [if_neg h0, if_neg h0]
        by_cases hn : rn r < utfSurgA ∨ utfSurgC ≤ rn r
        · rw [if_pos hn, decPut_pad]
          have ⟨a, b⟩ := (rn_norm_iff r).mp hn
          rw [refDecode_norm r _ a b]
          have := ih (r2 :: rest) (by simp; omega) (pre ++ [rn r]) k' (by simp; omega)
          simp only [List.length_append, List.length_singleton] at this
          rw [this]
          simp only [List.length_cons, List.append_assoc, List.singleton_append, rn]
          generalize (refDecode (untilNul (r2 :: rest))).length = L
          have e1 : k' + 1 - (L + 1) = k' - L := by omega
          have e2 : pre.length + 1 + L = pre.length + (L + 1) := by omega
          rw [e1, e2]
        · rw [if_neg hn]
          by_cases hp : utfSurgA ≤ rn r ∧ rn r < utfSurgB ∧ utfSurgB ≤ rn r2 ∧ rn r2 < utfSurgC
          · rw [if_pos hp, decPut_pad]
            have ⟨a, b⟩ := (rn_pair_iff r r2).mp hp
            have h2 : r2 ≠ 0 := by
              intro e; rw [e, isLow_iff] at b; simp at b
            rw [untilNul_cons, if_neg h2, refDecode_pair r r2 _ a b, decodeRune_pair r r2 a b]
            have := ih rest (by omega) (pre ++ [((0x10000 + (r.toNat - 0xD800) * 1024 + (r2.toNat - 0xDC00) : Nat) : Int)]) k' (by omega)
            simp only [List.length_append, List.length_singleton] at this
            rw [this]
            simp only [List.length_cons, List.append_assoc, List.singleton_append]
            generalize (refDecode (untilNul rest)).length = L
            have e1 : k' + 1 - (L + 1) = k' - L := by omega
            have e2 : pre.length + 1 + L = pre.length + (L + 1) := by omega
            rw [e1, e2]
          · rw [if_neg hp, decPut_pad]
            have hnp := (not_congr (rn_pair_iff r r2)).mp hp
            have hs : isHigh r = true ∨ isLow r = true := by
              have := (not_congr (rn_norm_iff r)).mp hn
              by_cases x : isHigh r = true
              · exact Or.inl x
              · by_cases y : isLow r = true
                · exact Or.inr y
                · exact absurd ⟨x, y⟩ this
            have hr : refDecode (r :: untilNul (r2 :: rest)) = 0xFFFD :: refDecode (untilNul (r2 :: rest)) := by
              rcases hs with x | y
              · rw [untilNul_cons]
                by_cases h2 : r2 = 0
                · rw [if_pos h2]; simp [refDecode, x]
                · rw [if_neg h2]
                  exact refDecode_high_nolow r r2 _ x (fun hl => hnp ⟨x, hl⟩)
              · exact refDecode_low r _ y
            rw [hr]
            have := ih (r2 :: rest) (by simp; omega) (pre ++ [utfReplacement]) k' (by simp; omega)
            simp only [List.length_append, List.length_singleton] at this
            rw [this]
            simp only [List.length_cons, List.append_assoc, List.singleton_append, utfReplacement_eq]
            generalize (refDecode (untilNul (r2 :: rest))).length = L
            have e1 : k' + 1 - (L + 1) = k' - L := by omega
            have e2 : pre.length + 1 + L = pre.length + (L + 1) := by omega
            rw [e1, e2]

theorem utf16Decode_eq (s : U16s) : utf16Decode s = .ok (refDecode (untilNul s)) := by
  unfold utf16Decode
  have := decLoop_pad s.length s (Nat.le_refl _) [] s.length (Nat.le_refl _)
  simp only [List.nil_append, List.length_nil, Nat.zero_add] at this
  rw [this]
  exact sliceTo_pad _ _ _

end XMT.Utf16
