/-
  XMT.Utf16Lemmas — helper lemmas for the encoder half of C20 (constants, padded-buffer writes,
  loop invariants of the two encoders).
-/
import XMT.Utf16
namespace XMT.Utf16
open XMT

@[simp] theorem utfSelf_eq : utfSelf = 65536 := by decide
@[simp] theorem utfSurgA_eq : utfSurgA = 55296 := by decide
@[simp] theorem utfSurgB_eq : utfSurgB = 56320 := by decide
@[simp] theorem utfSurgC_eq : utfSurgC = 57344 := by decide
@[simp] theorem utfRuneMax_eq : utfRuneMax = 1114111 := by decide
@[simp] theorem utfReplacement_eq : utfReplacement = 65533 := by decide

theorem and_1023 (x : Nat) : x &&& 1023 = x % 1024 := Nat.and_two_pow_sub_one_eq_mod x 10

theorem u16_of_nat (n : Nat) (h : n < 65536) : u16 (n : Int) = UInt16.ofNat n := by
  unfold u16
  apply congrArg UInt16.ofNat
  omega

theorem u16_small (r : Int) (h0 : 0 ≤ r) (h1 : r < 65536) : u16 r = UInt16.ofNat r.toNat := by
  unfold u16
  apply congrArg UInt16.ofNat
  omega

theorem encRune_fst (r : Int) (h0 : 65536 ≤ r) (h1 : r ≤ 1114111) :
    (utf16EncodeRune r).1 = UInt16.ofNat (0xD800 + (r.toNat - 0x10000) / 1024) := by
  unfold utf16EncodeRune
  simp only [utfSelf_eq, utfRuneMax_eq, utfSurgA_eq]
  have hc : ¬ (r < 65536 ∨ r > 1114111) := by omega
  rw [if_neg hc]
  simp only [Nat.shiftRight_eq_div_pow, and_1023]
  unfold u16
  apply congrArg UInt16.ofNat
  omega

theorem encRune_snd (r : Int) (h0 : 65536 ≤ r) (h1 : r ≤ 1114111) :
    (utf16EncodeRune r).2 = UInt16.ofNat (0xDC00 + (r.toNat - 0x10000) % 1024) := by
  unfold utf16EncodeRune
  simp only [utfSelf_eq, utfRuneMax_eq, utfSurgB_eq]
  have hc : ¬ (r < 65536 ∨ r > 1114111) := by omega
  rw [if_neg hc]
  simp only [and_1023]
  unfold u16
  apply congrArg UInt16.ofNat
  omega


theorem wr_pad {α : Type} (pre : List α) (k : Nat) (z v : α) :
    wr (pre ++ List.replicate (k + 1) z) pre.length v = .ok ((pre ++ [v]) ++ List.replicate k z) := by
  unfold wr
  have h : pre.length < (pre ++ List.replicate (k + 1) z).length := by simp
  rw [if_pos h]
  simp [List.replicate_succ]

theorem refEncRune_len_pos (r : Int) : 1 ≤ (refEncRune r).length := by
  unfold refEncRune; split
  · simp
  · split <;> simp

theorem refEncRune_bmp (r : Int) (h : (0 ≤ r ∧ r < 55296) ∨ (57344 ≤ r ∧ r < 65536)) :
    refEncRune r = [UInt16.ofNat r.toNat] := by
  unfold refEncRune; rw [if_pos h]

theorem refEncRune_supp (r : Int) (h : 65536 ≤ r ∧ r ≤ 1114111) :
    refEncRune r = [UInt16.ofNat (0xD800 + (r.toNat - 0x10000) / 1024),
                    UInt16.ofNat (0xDC00 + (r.toNat - 0x10000) % 1024)] := by
  unfold refEncRune
  have h1 : ¬ ((0 ≤ r ∧ r < 55296) ∨ (57344 ≤ r ∧ r < 65536)) := by omega
  rw [if_neg h1, if_pos h]

theorem refEncRune_bad (r : Int) (h1 : ¬ ((0 ≤ r ∧ r < 55296) ∨ (57344 ≤ r ∧ r < 65536)))
    (h2 : ¬ (65536 ≤ r ∧ r ≤ 1114111)) : refEncRune r = [0xFFFD] := by
  unfold refEncRune; rw [if_neg h1, if_neg h2]

theorem encStep_pad (r : Int) (pre : U16s) (k : Nat) (h : (refEncRune r).length ≤ k) :
    encStep r (pre ++ List.replicate k 0) pre.length
      = .ok ((pre ++ refEncRune r) ++ List.replicate (k - (refEncRune r).length) 0,
             pre.length + (refEncRune r).length) := by
  unfold encStep
  simp only [utfSelf_eq, utfSurgA_eq, utfSurgC_eq, utfRuneMax_eq, utfReplacement_eq]
  by_cases h1 : (0 ≤ r ∧ r < 55296) ∨ (57344 ≤ r ∧ r < 65536)
  · rw [if_pos h1]
    rw [refEncRune_bmp r h1] at h ⊢
    simp only [List.length_singleton] at h ⊢
    obtain ⟨k', rfl⟩ : ∃ k', k = k' + 1 := ⟨k - 1, by omega⟩
    rw [wr_pad]
    have : u16 r = UInt16.ofNat r.toNat := u16_small r (by omega) (by omega)
    simp [this]
  · rw [if_neg h1]
    by_cases h2 : 65536 ≤ r ∧ r ≤ 1114111
    · rw [if_pos h2]
      rw [refEncRune_supp r h2] at h ⊢
      rw [← encRune_fst r h2.1 h2.2, ← encRune_snd r h2.1 h2.2]
      generalize (utf16EncodeRune r).1 = a
      generalize (utf16EncodeRune r).2 = b
      simp only [List.length_cons, List.length_nil] at h ⊢
      obtain ⟨k', rfl⟩ : ∃ k', k = k' + 2 := ⟨k - 2, by omega⟩
      rw [wr_pad]
      have := wr_pad (pre ++ [a]) k' (0 : UInt16) b
      simp only [List.length_append, List.length_singleton] at this
      dsimp only
      rw [this]
      simp
    · rw [if_neg h2]
      rw [refEncRune_bad r h1 h2] at h ⊢
      simp only [List.length_singleton] at h ⊢
      obtain ⟨k', rfl⟩ : ∃ k', k = k' + 1 := ⟨k - 1, by omega⟩
      rw [wr_pad]
      have : u16 65533 = 0xFFFD := by decide
      simp [this]

theorem refEncode_cons (r : Int) (s : List Int) : refEncode (r :: s) = refEncRune r ++ refEncode s := by
  simp [refEncode]

theorem encStdLoop_pad (s : List Int) : ∀ (pre : U16s) (k : Nat), (refEncode s).length ≤ k →
    encStdLoop s (pre ++ List.replicate k 0) pre.length
      = .ok ((pre ++ refEncode s) ++ List.replicate (k - (refEncode s).length) 0,
             pre.length + (refEncode s).length) := by
  induction s with
  | nil => intro pre k _; simp [encStdLoop, refEncode]
  | cons r s ih =>
    intro pre k h
    rw [refEncode_cons] at h ⊢
    simp only [List.length_append] at h ⊢
    unfold encStdLoop
    rw [encStep_pad r pre k (by omega)]
    dsimp only
    have := ih (pre ++ refEncRune r) (k - (refEncRune r).length) (by omega)
    simp only [List.length_append] at this
    rw [this]
    simp only [List.append_assoc, Nat.add_assoc, Nat.sub_sub]

/-- `sizeStd` adds one unit per rune `≥ utfSelf`. -/
theorem sizeStd_add (s : List Int) : ∀ n, sizeStd s n = n + sizeStd s 0 := by
  induction s with
  | nil => intro n; simp [sizeStd]
  | cons r s ih =>
    intro n
    unfold sizeStd
    split
    · exact ih n
    · rw [ih (n + 1), ih (0 + 1)]; omega

theorem refEncRune_len_le (r : Int) : (refEncRune r).length ≤ if r < 65536 then 1 else 2 := by
  unfold refEncRune
  split
  · split <;> simp
  · split
    · rename_i h; rw [if_neg (by omega)]; simp
    · split <;> simp

theorem refEncode_len_le_sizeStd (s : List Int) : (refEncode s).length ≤ s.length + sizeStd s 0 := by
  induction s with
  | nil => simp [refEncode, sizeStd]
  | cons r s ih =>
    rw [refEncode_cons]
    have h := refEncRune_len_le r
    unfold sizeStd
    simp only [utfSelf_eq, List.length_append, List.length_cons]
    split
    · rename_i hr; rw [if_pos hr] at h; omega
    · rename_i hr; rw [if_neg hr] at h; rw [sizeStd_add s (0 + 1)]; omega

theorem sliceTo_pad {α : Type} (l : List α) (k : Nat) (z : α) :
    sliceTo (l ++ List.replicate k z) l.length = .ok l := by
  unfold sliceTo
  rw [if_pos (by simp)]
  simp

theorem utf16EncodeStd_eq (s : List Int) : utf16EncodeStd s = .ok (refEncode s) := by
  unfold utf16EncodeStd
  have h := refEncode_len_le_sizeStd s
  have := encStdLoop_pad s [] (sizeStd s s.length) (by rw [sizeStd_add]; exact h)
  simp only [List.nil_append, List.length_nil, Nat.zero_add] at this
  rw [this]
  exact sliceTo_pad _ _ _

theorem sizeEnc_eq (s : List Int) : ∀ n, sizeEnc s n =
    if innerNul s then .err .einval else .ok (n + sizeStd s 0) := by
  induction s with
  | nil => intro n; simp [sizeEnc, innerNul, sizeStd]
  | cons r s ih =>
    intro n
    unfold sizeEnc innerNul sizeStd
    by_cases h : r = 0 ∧ s ≠ []
    · rw [if_pos h]
      have : (r == 0 && !s.isEmpty) = true := by
        obtain ⟨h1, h2⟩ := h
        cases s with
        | nil => exact absurd rfl h2
        | cons a t => simp [h1]
      simp [this]
    · rw [if_neg h]
      have : (r == 0 && !s.isEmpty) = false := by
        cases s with
        | nil => simp
        | cons a t => simp at h ⊢; exact h
      simp only [this, Bool.false_or]
      split
      · exact ih n
      · rw [ih (n + 1), sizeStd_add s (0 + 1)]
        split
        · rfl
        · congr 1; omega

theorem encLoop_eq (s : List Int) : ∀ b n, innerNul s = false → encLoop s b n = encStdLoop s b n := by
  induction s with
  | nil => intro b n _; simp [encLoop, encStdLoop]
  | cons r s ih =>
    intro b n h
    unfold innerNul at h
    simp only [Bool.or_eq_false_iff] at h
    unfold encLoop encStdLoop
    have hc : ¬ (r = 0 ∧ s ≠ []) := by
      intro ⟨h1, h2⟩
      cases s with
      | nil => exact h2 rfl
      | cons a t => simp [h1] at h
    rw [if_neg hc]
    cases encStep r b n with
    | ok p => obtain ⟨b', n'⟩ := p; exact ih b' n' h.2
    | err e => rfl
    | panic p => rfl

theorem utf16Encode_eq (s : List Int) :
    utf16Encode s = if innerNul s then .err .einval else .ok (refEncode s) := by
  unfold utf16Encode
  rw [sizeEnc_eq]
  by_cases h : innerNul s = true
  · simp [h]
  · have h' : innerNul s = false := by simpa using h
    simp only [h', Bool.false_eq_true, if_false]
    rw [encLoop_eq s _ _ h']
    have := utf16EncodeStd_eq s
    unfold utf16EncodeStd at this
    rw [sizeStd_add] at this
    exact this

theorem innerNul_append_zero (rs : List Int) : innerNul (rs ++ [0]) = decide ((0 : Int) ∈ rs) := by
  induction rs with
  | nil => simp [innerNul]
  | cons r rs ih =>
    simp only [List.cons_append, innerNul, ih]
    by_cases h : r = 0
    · subst h; simp
    · have : (r == 0) = false := by simpa using h
      have h2 : ¬ (0 = r) := fun e => h e.symm
      simp [this, h2]

theorem refEncode_append (a b : List Int) : refEncode (a ++ b) = refEncode a ++ refEncode b := by
  simp [refEncode]

theorem refEncode_zero : refEncode [0] = [0] := by decide

theorem utf16FromString_eq (rs : List Int) :
    utf16FromString rs = if (0 : Int) ∈ rs then .err .einval else .ok (refEncode rs ++ [0]) := by
  unfold utf16FromString
  cases rs with
  | nil => simp [refEncode]
  | cons r t =>
    rw [if_neg (by simp), utf16Encode_eq, innerNul_append_zero, refEncode_append, refEncode_zero]
    simp only [decide_eq_true_eq]

end XMT.Utf16
