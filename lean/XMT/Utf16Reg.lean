/-
  XMT.Utf16Reg — helper lemmas for FnvHash and for the registry value decoders of C20: the
  `[]uint16` view over the value's bytes stays inside the value and is the little-endian word list.
-/
import XMT.Utf16Roundtrip
namespace XMT.Utf16
open XMT

/-! ### FNV -/

theorem fnv_fold (bs : Bytes) : ∀ h : UInt32,
    (bs.foldl (fun h b => (h * UInt32.ofNat Facts.fnvPrime) ^^^ UInt32.ofNat b.toNat) h).toNat
      = bs.foldl (fun h b => (h * 0x01000193 % 2 ^ 32) ^^^ b.toNat) h.toNat := by
  induction bs with
  | nil => intro h; rfl
  | cons b bs ih =>
    intro h
    simp only [List.foldl_cons]
    rw [ih]
    congr 1
    rw [UInt32.toNat_xor, UInt32.toNat_mul]
    have hb := UInt8.toNat_lt b
    have e1 : (UInt32.ofNat Facts.fnvPrime).toNat = 0x01000193 := by decide
    have e2 : (UInt32.ofNat b.toNat).toNat = b.toNat := by
      rw [UInt32.toNat_ofNat']; omega
    rw [e1, e2]

theorem fnvHash_eq (bs : Bytes) : (fnvHash bs).toNat = fnv1Ref bs := by
  unfold fnvHash fnv1Ref
  rw [fnv_fold]
  have : (UInt32.ofNat Facts.fnvBasis).toNat = 0x811C9DC5 := by decide
  rw [this]

/-! ### registry views -/

theorem leWords_length : ∀ (n : Nat) (d : Bytes), d.length ≤ n → (leWords d).length = d.length / 2 := by
  intro n
  induction n with
  | zero => intro d h; cases d with
    | nil => rfl
    | cons a t => simp at h
  | succ n ih =>
    intro d h
    match d with
    | [] => rfl
    | [a] => simp [leWords]
    | a :: b :: t =>
      simp only [List.length_cons] at h
      simp only [leWords, List.length_cons]
      rw [ih t (by omega)]; omega

theorem leWords_getElem? : ∀ (k : Nat) (d : Bytes) (lo hi : UInt8),
    d[2 * k]? = some lo → d[2 * k + 1]? = some hi →
    (leWords d)[k]? = some (UInt16.ofNat (lo.toNat + 256 * hi.toNat)) := by
  intro k
  induction k with
  | zero =>
    intro d lo hi h0 h1
    match d with
    | [] => simp at h0
    | [a] => simp at h1
    | a :: b :: t =>
      simp at h0 h1; subst h0; subst h1; simp [leWords]
  | succ k ih =>
    intro d lo hi h0 h1
    match d with
    | [] => simp at h0
    | [a] => simp at h1
    | a :: b :: t =>
      have e0 : 2 * (k + 1) = (2 * k) + 1 + 1 := by omega
      have e1 : 2 * (k + 1) + 1 = (2 * k + 1) + 1 + 1 := by omega
      rw [e0] at h0; rw [e1] at h1
      simp only [List.getElem?_cons_succ] at h0 h1
      simp only [leWords, List.getElem?_cons_succ]
      exact ih t lo hi h0 h1

theorem viewU16_eq (d : Bytes) : ∀ n, 2 * n ≤ d.length → viewU16 d n = .ok ((leWords d).take n) := by
  intro n
  induction n with
  | zero => intro _; simp [viewU16]
  | succ n ih =>
    intro h
    unfold viewU16
    rw [ih (by omega)]
    dsimp only
    unfold u16At
    have h0 : 2 * n < d.length := by omega
    have h1 : 2 * n + 1 < d.length := by omega
    rw [List.getElem?_eq_getElem h0, List.getElem?_eq_getElem h1]
    dsimp only
    have hw := leWords_getElem? n d d[2 * n] d[2 * n + 1] (List.getElem?_eq_getElem h0) (List.getElem?_eq_getElem h1)
    have hb := UInt8.toNat_lt d[2 * n]
    rw [or_shl_eq_add _ _ 8 (by omega)]
    rw [List.take_add_one, hw]
    simp [Nat.mul_comm]

theorem regView_eq (d : Bytes) (h1 : 1 ≤ d.length) (hc : d.length / 2 ≤ Facts.regArrayCap) :
    regView d = .ok (leWords d) := by
  unfold regView
  have h0 : 0 < d.length := by omega
  rw [List.getElem?_eq_getElem h0]
  dsimp only
  rw [if_neg (by omega), viewU16_eq d _ (by omega)]
  rw [List.take_of_length_le (by rw [leWords_length d.length d (Nat.le_refl _)]; omega)]

theorem regView_no_oob (d : Bytes) : regView d ≠ .panic "read-oob" := by
  unfold regView
  split
  · simp
  · split
    · simp
    · rw [viewU16_eq d _ (by omega)]; simp

theorem entryToString_eq (ty : Nat) (d : Bytes) (hc : d.length / 2 ≤ Facts.regArrayCap) :
    entryToString ty d =
      if ty ≠ Facts.regTypeString ∧ ty ≠ Facts.regTypeExpandString then .err .unexpectedType
      else if d.length < 3 then .err .unexpectedSize
      else .ok (refDecode (untilNul (leWords d))) := by
  unfold entryToString
  split
  · rfl
  · split
    · rfl
    · rw [regView_eq d (by omega) hc]
      exact utf16Decode_eq _

theorem leNat4 (b0 b1 b2 b3 : UInt8) :
    b0.toNat ||| (b1.toNat <<< 8) ||| (b2.toNat <<< 16) ||| (b3.toNat <<< 24) = leNat [b0, b1, b2, b3] := by
  have h0 := UInt8.toNat_lt b0; have h1 := UInt8.toNat_lt b1
  have h2 := UInt8.toNat_lt b2; have h3 := UInt8.toNat_lt b3
  rw [or_shl_eq_add _ _ 8 (by omega), or_shl_eq_add _ _ 16 (by omega), or_shl_eq_add _ _ 24 (by omega)]
  simp only [leNat]; omega

theorem leNat8 (b0 b1 b2 b3 b4 b5 b6 b7 : UInt8) :
    b0.toNat ||| (b1.toNat <<< 8) ||| (b2.toNat <<< 16) ||| (b3.toNat <<< 24) |||
      (b4.toNat <<< 32) ||| (b5.toNat <<< 40) ||| (b6.toNat <<< 48) ||| (b7.toNat <<< 56)
      = leNat [b0, b1, b2, b3, b4, b5, b6, b7] := by
  have h0 := UInt8.toNat_lt b0; have h1 := UInt8.toNat_lt b1
  have h2 := UInt8.toNat_lt b2; have h3 := UInt8.toNat_lt b3
  have h4 := UInt8.toNat_lt b4; have h5 := UInt8.toNat_lt b5
  have h6 := UInt8.toNat_lt b6; have h7 := UInt8.toNat_lt b7
  rw [or_shl_eq_add _ _ 8 (by omega), or_shl_eq_add _ _ 16 (by omega), or_shl_eq_add _ _ 24 (by omega),
      or_shl_eq_add _ _ 32 (by omega), or_shl_eq_add _ _ 40 (by omega), or_shl_eq_add _ _ 48 (by omega),
      or_shl_eq_add _ _ 56 (by omega)]
  simp only [leNat]; omega

theorem leNat_lt (d : Bytes) : leNat d < 256 ^ d.length := by
  induction d with
  | nil => simp [leNat]
  | cons b t ih =>
    have := UInt8.toNat_lt b
    simp only [leNat, List.length_cons, Nat.pow_succ]
    omega

theorem entryToInteger_eq (ty : Nat) (d : Bytes) :
    entryToInteger ty d =
      if ty = Facts.regTypeDword then (if d.length ≠ 4 then .err .unexpectedSize else .ok (leNat d))
      else if ty = Facts.regTypeQword then (if d.length ≠ 8 then .err .unexpectedSize else .ok (leNat d))
      else .err .unexpectedType := by
  unfold entryToInteger
  split
  · split
    · rfl
    · rename_i h
      match d, h with
      | [b0, b1, b2, b3], _ => simp [leNat4]
      | [], h => simp at h
      | [_], h => simp at h
      | [_, _], h => simp at h
      | [_, _, _], h => simp at h
      | _ :: _ :: _ :: _ :: _ :: _, h => simp at h
  · split
    · split
      · rfl
      · rename_i h
        match d, h with
        | [b0, b1, b2, b3, b4, b5, b6, b7], _ => simp [leNat8]
        | [], h => simp at h
        | [_], h => simp at h
        | [_, _], h => simp at h
        | [_, _, _], h => simp at h
        | [_, _, _, _], h => simp at h
        | [_, _, _, _, _], h => simp at h
        | [_, _, _, _, _, _], h => simp at h
        | [_, _, _, _, _, _, _], h => simp at h
        | _ :: _ :: _ :: _ :: _ :: _ :: _ :: _ :: _ :: _, h => simp at h
    · rfl

theorem slice_pre {α : Type} (pre rest : List α) (n : Nat) (h : n ≤ pre.length) :
    slice (pre ++ rest) n pre.length = .ok (pre.drop n) := by
  unfold slice
  rw [if_pos ⟨h, by simp⟩]
  congr 1
  rw [List.drop_append_of_le_length h, List.take_append_of_le_length (by simp)]
  exact List.take_of_length_le (by simp)

theorem slLoop_eq (v : U16s) : ∀ (rest pre : U16s) (n : Nat) (acc : List (List Int)),
    v = pre ++ rest → n ≤ pre.length →
    slLoop v rest pre.length n acc
      = .ok (acc ++ (segsAux (pre.drop n) rest).map (fun s => refDecode (untilNul s))) := by
  intro rest
  induction rest with
  | nil => intro pre n acc _ _; simp [slLoop, segsAux]
  | cons x rest ih =>
    intro pre n acc hv hn
    unfold slLoop segsAux
    have hv' : v = (pre ++ [x]) ++ rest := by rw [hv]; simp
    have hl : (pre ++ [x]).length = pre.length + 1 := by simp
    by_cases hx : x.toNat > 0
    · rw [if_pos hx]
      have hx0 : x ≠ 0 := by intro e; rw [e] at hx; simp at hx
      rw [if_neg hx0]
      have := ih (pre ++ [x]) n acc hv' (by rw [hl]; omega)
      rw [hl] at this
      rw [this, List.drop_append_of_le_length hn]
    · rw [if_neg hx]
      have hx0 : x = 0 := by
        apply UInt16.toNat_inj.mp; simp; omega
      rw [if_pos hx0]
      rw [hv, slice_pre pre (x :: rest) n hn]
      dsimp only
      rw [utf16Decode_eq]
      dsimp only
      rw [← hv]
      have := ih (pre ++ [x]) (pre.length + 1) (acc ++ [refDecode (untilNul (pre.drop n))]) hv' (by rw [hl]; omega)
      rw [hl] at this
      rw [this]
      have : (pre ++ [x]).drop (pre.length + 1) = [] := by
        apply List.drop_of_length_le; simp
      rw [this]
      simp

theorem entryToStringList_eq (ty : Nat) (d : Bytes) (hc : d.length / 2 ≤ Facts.regArrayCap) :
    entryToStringList ty d =
      if ty ≠ Facts.regTypeStringList then .err .unexpectedType
      else if d.length < 3 then .err .unexpectedSize
      else .ok ((segs (stripLastNul (leWords d))).map (fun s => refDecode (untilNul s))) := by
  unfold entryToStringList
  split
  · rfl
  · split
    · rfl
    · rename_i h3
      rw [regView_eq d (by omega) hc]
      dsimp only
      have hl : (leWords d).length = d.length / 2 := leWords_length d.length d (Nat.le_refl _)
      have hpos : 0 < (leWords d).length := by omega
      rw [if_neg (by omega)]
      have hlast : (leWords d)[(leWords d).length - 1]? = (leWords d).getLast? := by
        rw [List.getLast?_eq_getElem?]
      have hi : (leWords d).length - 1 < (leWords d).length := by omega
      rw [List.getElem?_eq_getElem hi]
      dsimp only
      have := slLoop_eq (stripLastNul (leWords d)) (stripLastNul (leWords d)) [] 0 [] (by simp) (by simp)
      simp only [List.length_nil, List.drop_nil, List.nil_append] at this
      have hs : (if (leWords d)[(leWords d).length - 1] = 0 then (leWords d).take ((leWords d).length - 1) else leWords d)
          = stripLastNul (leWords d) := by
        unfold stripLastNul
        rw [← hlast, List.getElem?_eq_getElem hi, List.dropLast_eq_take]
        simp
      rw [hs, this]
      rfl

theorem segsAux_no_zero : ∀ (rest cur : U16s), (0 : UInt16) ∉ cur →
    ∀ s ∈ segsAux cur rest, (0 : UInt16) ∉ s := by
  intro rest
  induction rest with
  | nil => intro cur _ s hs; simp [segsAux] at hs
  | cons x rest ih =>
    intro cur hc s hs
    unfold segsAux at hs
    by_cases hx : x = 0
    · rw [if_pos hx] at hs
      rcases List.mem_cons.mp hs with h | h
      · rw [h]; exact hc
      · exact ih [] (by simp) s h
    · rw [if_neg hx] at hs
      refine ih (cur ++ [x]) ?_ s hs
      simp only [List.mem_append, List.mem_singleton, not_or]
      exact ⟨hc, fun e => hx e.symm⟩

theorem segs_map_decode (v : U16s) :
    (segs v).map (fun s => refDecode (untilNul s)) = (segs v).map refDecode := by
  apply List.map_congr_left
  intro s hs
  rw [untilNul_of_not_mem s (segsAux_no_zero v [] (by simp) s hs)]

end XMT.Utf16
