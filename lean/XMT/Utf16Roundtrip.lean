/-
  XMT.Utf16Roundtrip — the reference encoder and decoder are mutually inverse on valid text, and a
  NUL word appears in an encoding exactly where a NUL rune was.
-/
import XMT.Utf16Decode
namespace XMT.Utf16
open XMT

theorem ofNat_toNat_lt (n : Nat) (h : n < 65536) : (UInt16.ofNat n).toNat = n := by
  rw [UInt16.toNat_ofNat']; omega

theorem zero_mem_refEncRune (r : Int) : (0 : UInt16) ∈ refEncRune r ↔ r = 0 := by
  by_cases h1 : (0 ≤ r ∧ r < 55296) ∨ (57344 ≤ r ∧ r < 65536)
  · rw [refEncRune_bmp r h1]
    simp only [List.mem_singleton]
    constructor
    · intro h
      have := congrArg UInt16.toNat h
      rw [ofNat_toNat_lt _ (by omega)] at this
      simp at this; omega
    · intro h; subst h; rfl
  · by_cases h2 : 65536 ≤ r ∧ r ≤ 1114111
    · rw [refEncRune_supp r h2]
      constructor
      · intro h
        simp only [List.mem_cons, List.not_mem_nil, or_false] at h
        rcases h with h | h
        · have := congrArg UInt16.toNat h
          rw [ofNat_toNat_lt _ (by omega)] at this
          simp at this; omega
        · have := congrArg UInt16.toNat h
          rw [ofNat_toNat_lt _ (by omega)] at this
          simp at this; omega
      · intro h; omega
    · rw [refEncRune_bad r h1 h2]
      constructor
      · intro h; simp at h
      · intro h; omega

theorem zero_mem_refEncode (rs : List Int) : (0 : UInt16) ∈ refEncode rs ↔ (0 : Int) ∈ rs := by
  induction rs with
  | nil => simp [refEncode]
  | cons r rs ih =>
    rw [refEncode_cons, List.mem_append, zero_mem_refEncRune, ih, List.mem_cons]
    constructor
    · rintro (h | h)
      · exact Or.inl h.symm
      · exact Or.inr h
    · rintro (h | h)
      · exact Or.inl h.symm
      · exact Or.inr h

theorem untilNul_append_zero (u : U16s) (h : (0 : UInt16) ∉ u) : untilNul (u ++ [0]) = u := by
  induction u with
  | nil => simp [untilNul]
  | cons a t ih =>
    simp only [List.mem_cons, not_or] at h
    rw [List.cons_append, untilNul_cons, if_neg (fun e => h.1 e.symm), ih h.2]

theorem untilNul_of_not_mem (u : U16s) (h : (0 : UInt16) ∉ u) : untilNul u = u := by
  induction u with
  | nil => simp [untilNul]
  | cons a t ih =>
    simp only [List.mem_cons, not_or] at h
    rw [untilNul_cons, if_neg (fun e => h.1 e.symm), ih h.2]

theorem refDecode_refEncode (rs : List Int) (hs : ∀ r ∈ rs, isScalar r = true) :
    refDecode (refEncode rs) = rs := by
  induction rs with
  | nil => simp [refEncode, refDecode]
  | cons r rs ih =>
    have hr := hs r (by simp)
    have ih' := ih (fun x hx => hs x (by simp [hx]))
    rw [refEncode_cons]
    simp only [isScalar, Bool.or_eq_true, Bool.and_eq_true, decide_eq_true_eq] at hr
    by_cases h1 : (0 ≤ r ∧ r < 55296) ∨ (57344 ≤ r ∧ r < 65536)
    · rw [refEncRune_bmp r h1]
      have ht : (UInt16.ofNat r.toNat).toNat = r.toNat := ofNat_toNat_lt _ (by omega)
      rw [List.singleton_append, refDecode_norm _ _ (by rw [isHigh_iff, ht]; omega) (by rw [isLow_iff, ht]; omega),
        ih', ht]
      congr 1; omega
    · have h2 : 65536 ≤ r ∧ r ≤ 1114111 := by omega
      rw [refEncRune_supp r h2]
      have t1 : (UInt16.ofNat (0xD800 + (r.toNat - 0x10000) / 1024)).toNat = 0xD800 + (r.toNat - 0x10000) / 1024 :=
        ofNat_toNat_lt _ (by omega)
      have t2 : (UInt16.ofNat (0xDC00 + (r.toNat - 0x10000) % 1024)).toNat = 0xDC00 + (r.toNat - 0x10000) % 1024 :=
        ofNat_toNat_lt _ (by omega)
      show refDecode (_ :: _ :: refEncode rs) = _
      rw [refDecode_pair _ _ _ (by rw [isHigh_iff, t1]; omega) (by rw [isLow_iff, t2]; omega), ih', t1, t2]
      have e : ((65536 + (55296 + (r.toNat - 65536) / 1024 - 55296) * 1024
          + (56320 + (r.toNat - 65536) % 1024 - 56320) : Nat) : Int) = r := by omega
      exact congrArg (· :: rs) e

theorem refEncode_refDecode : ∀ (n : Nat) (u : U16s), u.length ≤ n → wellFormed16 u = true →
    refEncode (refDecode u) = u := by
  intro n
  induction n with
  | zero =>
    intro u h _
    cases u with
    | nil => simp [refDecode, refEncode]
    | cons a t => simp at h
  | succ n ih =>
    intro u h hw
    have norm : ∀ (a : UInt16) (t : U16s), ¬ isHigh a = true → ¬ isLow a = true →
        refEncRune (a.toNat : Int) = [a] := by
      intro a t hh hl
      rw [isHigh_iff] at hh; rw [isLow_iff] at hl
      have := UInt16.toNat_lt a
      rw [refEncRune_bmp _ (by omega)]
      simp
    match u with
    | [] => simp [refDecode, refEncode]
    | [a] =>
      simp only [wellFormed16, Bool.not_eq_true', Bool.or_eq_false_iff] at hw
      rw [refDecode_norm a [] (by simp [hw.1]) (by simp [hw.2])]
      have hnil : refDecode [] = [] := rfl
      rw [hnil, refEncode_cons, norm a [] (by simp [hw.1]) (by simp [hw.2])]
      rfl
    | a :: l :: t =>
      simp only [List.length_cons] at h
      simp only [wellFormed16] at hw
      by_cases hh : isHigh a = true
      · rw [if_pos hh] at hw
        simp only [Bool.and_eq_true] at hw
        rw [refDecode_pair a l t hh hw.1, refEncode_cons, ih t (by omega) hw.2]
        have ha := (isHigh_iff a).mp hh
        have hl := (isLow_iff l).mp hw.1
        rw [refEncRune_supp _ (by omega)]
        simp only [Int.toNat_natCast, List.cons_append, List.nil_append]
        have e1 : UInt16.ofNat (55296 + (65536 + (a.toNat - 55296) * 1024 + (l.toNat - 56320) - 65536) / 1024) = a := by
          apply UInt16.toNat_inj.mp
          rw [ofNat_toNat_lt _ (by omega)]; omega
        have e2 : UInt16.ofNat (56320 + (65536 + (a.toNat - 55296) * 1024 + (l.toNat - 56320) - 65536) % 1024) = l := by
          apply UInt16.toNat_inj.mp
          rw [ofNat_toNat_lt _ (by omega)]; omega
        rw [e1, e2]
      · rw [if_neg hh] at hw
        by_cases hl : isLow a = true
        · rw [if_pos hl] at hw; exact absurd hw (by simp)
        · rw [if_neg hl] at hw
          rw [refDecode_norm a _ hh hl, refEncode_cons, ih (l :: t) (by simp; omega) hw, norm a t hh hl]
          rfl

theorem refDecode_scalar : ∀ (n : Nat) (u : U16s), u.length ≤ n → ∀ r ∈ refDecode u, isScalar r = true := by
  intro n
  induction n with
  | zero =>
    intro u h r hr
    cases u with
    | nil => simp [refDecode] at hr
    | cons a t => simp at h
  | succ n ih =>
    intro u h r hr
    have norm : ∀ a : UInt16, ¬ isHigh a = true → ¬ isLow a = true → isScalar (a.toNat : Int) = true := by
      intro a hh hl
      rw [isHigh_iff] at hh; rw [isLow_iff] at hl
      have := UInt16.toNat_lt a
      simp only [isScalar, Bool.or_eq_true, Bool.and_eq_true, decide_eq_true_eq]
      omega
    have repl : isScalar 0xFFFD = true := by decide
    match u with
    | [] => simp [refDecode] at hr
    | [a] =>
      simp only [refDecode] at hr
      split at hr
      · simp only [List.mem_singleton] at hr; rw [hr]; exact repl
      · rename_i hs
        simp only [Bool.or_eq_true, not_or] at hs
        simp only [List.mem_singleton] at hr; rw [hr]; exact norm a hs.1 hs.2
    | a :: l :: t =>
      simp only [List.length_cons] at h
      have ih1 := ih (l :: t) (by simp; omega)
      have ih2 := ih t (by omega)
      by_cases hh : isHigh a = true
      · by_cases hl : isLow l = true
        · rw [refDecode_pair a l t hh hl] at hr
          rcases List.mem_cons.mp hr with e | e
          · rw [e]
            have ha := (isHigh_iff a).mp hh
            have hb := (isLow_iff l).mp hl
            simp only [isScalar, Bool.or_eq_true, Bool.and_eq_true, decide_eq_true_eq]
            omega
          · exact ih2 r e
        · rw [refDecode_high_nolow a l t hh hl] at hr
          rcases List.mem_cons.mp hr with e | e
          · rw [e]; exact repl
          · exact ih1 r e
      · by_cases hl : isLow a = true
        · rw [refDecode_low a _ hl] at hr
          rcases List.mem_cons.mp hr with e | e
          · rw [e]; exact repl
          · exact ih1 r e
        · rw [refDecode_norm a _ hh hl] at hr
          rcases List.mem_cons.mp hr with e | e
          · rw [e]; exact norm a hh hl
          · exact ih1 r e

end XMT.Utf16
