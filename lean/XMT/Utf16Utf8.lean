/-
  XMT.Utf16Utf8 — lemmas about the model of Go's `[]rune(s)` conversion (UTF-8 decoding): appending
  a NUL byte appends a 0 rune, a 0 rune appears exactly where a NUL byte was, every rune is a scalar.
-/
import XMT.Utf16Roundtrip
namespace XMT.Utf16
open XMT

theorem cont?_some {o : Option UInt8} {x : Nat} (h : cont? o = some x) :
    ∃ b, o = some b ∧ 0x80 ≤ b.toNat ∧ b.toNat ≤ 0xBF ∧ x = b.toNat % 64 := by
  cases o with
  | none => simp [cont?] at h
  | some b =>
    simp only [cont?] at h
    split at h
    · rename_i hb; exact ⟨b, rfl, hb.1, hb.2, by injection h with h; exact h.symm⟩
    · simp at h

theorem cont?_append_zero (t : Bytes) (i : Nat) : cont? (t ++ [0])[i]? = cont? t[i]? := by
  by_cases h : i < t.length
  · rw [List.getElem?_append_left h]
  · by_cases h2 : i = t.length
    · subst h2
      rw [List.getElem?_append_right (Nat.le_refl _)]
      simp [cont?]
    · have h3 : t.length + 1 ≤ i := by omega
      rw [List.getElem?_eq_none (by simp; omega), List.getElem?_eq_none (by omega)]

theorem utf8First_append_zero (b0 : UInt8) (t : Bytes) :
    utf8First (b0 :: (t ++ [0])) = utf8First (b0 :: t) := by
  unfold utf8First
  simp only [cont?_append_zero]

/-- Shape of one decoding step: width 1 (ASCII byte as itself, or U+FFFD for a byte ≥ 0x80), or a
2/3/4-byte sequence whose trailing bytes are continuation bytes (≥ 0x80) and whose value lies in
the range proper to its length. -/
theorem utf8First_cases (b0 : UInt8) (t : Bytes) :
    ((utf8First (b0 :: t)).2 = 1 ∧
      (((utf8First (b0 :: t)).1 = (b0.toNat : Int) ∧ b0.toNat < 0x80) ∨
       ((utf8First (b0 :: t)).1 = 0xFFFD ∧ 0x80 ≤ b0.toNat))) ∨
    ((utf8First (b0 :: t)).2 = 2 ∧ 0x80 ≤ b0.toNat ∧
      (∃ b1 t', t = b1 :: t' ∧ 0x80 ≤ b1.toNat) ∧
      0x7F < (utf8First (b0 :: t)).1 ∧ (utf8First (b0 :: t)).1 < 0x800) ∨
    ((utf8First (b0 :: t)).2 = 3 ∧ 0x80 ≤ b0.toNat ∧
      (∃ b1 b2 t', t = b1 :: b2 :: t' ∧ 0x80 ≤ b1.toNat ∧ 0x80 ≤ b2.toNat) ∧
      0x7FF < (utf8First (b0 :: t)).1 ∧ (utf8First (b0 :: t)).1 ≤ 0xFFFF ∧
      ¬ (0xD800 ≤ (utf8First (b0 :: t)).1 ∧ (utf8First (b0 :: t)).1 ≤ 0xDFFF)) ∨
    ((utf8First (b0 :: t)).2 = 4 ∧ 0x80 ≤ b0.toNat ∧
      (∃ b1 b2 b3 t', t = b1 :: b2 :: b3 :: t' ∧ 0x80 ≤ b1.toNat ∧ 0x80 ≤ b2.toNat ∧ 0x80 ≤ b3.toNat) ∧
      0xFFFF < (utf8First (b0 :: t)).1 ∧ (utf8First (b0 :: t)).1 ≤ 0x10FFFF) := by
  have hb0 := UInt8.toNat_lt b0
  unfold utf8First
  simp only
  by_cases h1 : b0.toNat < 0x80
  · rw [if_pos h1]; exact Or.inl ⟨rfl, Or.inl ⟨rfl, h1⟩⟩
  · rw [if_neg h1]
    have hge : 0x80 ≤ b0.toNat := by omega
    have bad : ((0xFFFD : Int), 1).2 = 1 ∧ (((0xFFFD : Int), 1).1 = (b0.toNat : Int) ∧ b0.toNat < 0x80 ∨
        ((0xFFFD : Int), 1).1 = 0xFFFD ∧ 0x80 ≤ b0.toNat) := ⟨rfl, Or.inr ⟨rfl, hge⟩⟩
    by_cases h2 : 0xC0 ≤ b0.toNat ∧ b0.toNat < 0xE0
    · rw [if_pos h2]
      split
      · rename_i x1 e1
        obtain ⟨b1, hb1, l1, u1, rfl⟩ := cont?_some e1
        split
        · rename_i hr
          refine Or.inr (Or.inl ⟨rfl, hge, ?_, ?_, ?_⟩)
          · cases t with
            | nil => simp at hb1
            | cons a t' => simp at hb1; subst hb1; exact ⟨a, t', rfl, l1⟩
          · show (0x7F : Int) < ((b0.toNat % 32 * 64 + b1.toNat % 64 : Nat) : Int); omega
          · show ((b0.toNat % 32 * 64 + b1.toNat % 64 : Nat) : Int) < 0x800; omega
        · exact Or.inl bad
      · exact Or.inl bad
    · rw [if_neg h2]
      by_cases h3 : 0xE0 ≤ b0.toNat ∧ b0.toNat < 0xF0
      · rw [if_pos h3]
        split
        · rename_i x1 x2 e1 e2
          obtain ⟨b1, hb1, l1, u1, rfl⟩ := cont?_some e1
          obtain ⟨b2, hb2, l2, u2, rfl⟩ := cont?_some e2
          split
          · rename_i hr
            refine Or.inr (Or.inr (Or.inl ⟨rfl, hge, ?_, ?_, ?_, ?_⟩))
            · match t, hb1, hb2 with
              | a :: c :: t', hb1, hb2 =>
                simp at hb1 hb2; subst hb1; subst hb2; exact ⟨a, c, t', rfl, l1, l2⟩
              | [a], _, hb2 => simp at hb2
              | [], hb1, _ => simp at hb1
            · show (0x7FF : Int) < ((b0.toNat % 16 * 4096 + b1.toNat % 64 * 64 + b2.toNat % 64 : Nat) : Int); omega
            · show ((b0.toNat % 16 * 4096 + b1.toNat % 64 * 64 + b2.toNat % 64 : Nat) : Int) ≤ 0xFFFF; omega
            · show ¬ ((0xD800 : Int) ≤ ((b0.toNat % 16 * 4096 + b1.toNat % 64 * 64 + b2.toNat % 64 : Nat) : Int) ∧
                ((b0.toNat % 16 * 4096 + b1.toNat % 64 * 64 + b2.toNat % 64 : Nat) : Int) ≤ 0xDFFF); omega
          · exact Or.inl bad
        · exact Or.inl bad
      · rw [if_neg h3]
        by_cases h4 : 0xF0 ≤ b0.toNat ∧ b0.toNat < 0xF8
        · rw [if_pos h4]
          split
          · rename_i x1 x2 x3 e1 e2 e3
            obtain ⟨b1, hb1, l1, u1, rfl⟩ := cont?_some e1
            obtain ⟨b2, hb2, l2, u2, rfl⟩ := cont?_some e2
            obtain ⟨b3, hb3, l3, u3, rfl⟩ := cont?_some e3
            split
            · rename_i hr
              refine Or.inr (Or.inr (Or.inr ⟨rfl, hge, ?_, ?_, ?_⟩))
              · match t, hb1, hb2, hb3 with
                | a :: c :: e :: t', hb1, hb2, hb3 =>
                  simp at hb1 hb2 hb3; subst hb1; subst hb2; subst hb3; exact ⟨a, c, e, t', rfl, l1, l2, l3⟩
                | [a, c], _, _, hb3 => simp at hb3
                | [a], _, hb2, _ => simp at hb2
                | [], hb1, _, _ => simp at hb1
              · show (0xFFFF : Int) < ((b0.toNat % 8 * 262144 + b1.toNat % 64 * 4096 + b2.toNat % 64 * 64 + b3.toNat % 64 : Nat) : Int)
                omega
              · show ((b0.toNat % 8 * 262144 + b1.toNat % 64 * 4096 + b2.toNat % 64 * 64 + b3.toNat % 64 : Nat) : Int) ≤ 0x10FFFF
                omega
            · exact Or.inl bad
          · exact Or.inl bad
        · rw [if_neg h4]; exact Or.inl bad

theorem utf8First_width_pos (b0 : UInt8) (t : Bytes) : 1 ≤ (utf8First (b0 :: t)).2 := by
  rcases utf8First_cases b0 t with h | h | h | h <;> omega

theorem utf8First_width_le (b0 : UInt8) (t : Bytes) : (utf8First (b0 :: t)).2 ≤ t.length + 1 := by
  rcases utf8First_cases b0 t with h | h | h | h
  · omega
  · obtain ⟨hw, _, ⟨b1, t', rfl, _⟩, _⟩ := h; simp; omega
  · obtain ⟨hw, _, ⟨b1, b2, t', rfl, _⟩, _⟩ := h; simp; omega
  · obtain ⟨hw, _, ⟨b1, b2, b3, t', rfl, _⟩, _⟩ := h; simp; omega

theorem utf8DecodeF_nil (f : Nat) : utf8DecodeF f [] = [] := by
  cases f <;> rfl

theorem utf8DecodeF_append_zero : ∀ (f : Nat) (s : Bytes), s.length ≤ f →
    utf8DecodeF (f + 1) (s ++ [0]) = utf8DecodeF f s ++ [0] := by
  intro f
  induction f with
  | zero =>
    intro s h
    have : s = [] := List.length_eq_zero_iff.mp (by omega)
    subst this
    simp [utf8DecodeF, utf8First]
  | succ f ih =>
    intro s h
    match s with
    | [] => simp [utf8DecodeF, utf8First]
    | b :: t =>
      simp only [List.length_cons] at h
      have hw := utf8First_width_le b t
      have hp := utf8First_width_pos b t
      show utf8DecodeF (f + 1 + 1) (b :: (t ++ [0])) = _
      rw [utf8DecodeF, utf8DecodeF]
      rw [utf8First_append_zero]
      have hd : (b :: (t ++ [0])).drop (utf8First (b :: t)).2 = (b :: t).drop (utf8First (b :: t)).2 ++ [0] := by
        rw [← List.cons_append, List.drop_append_of_le_length (by simp; omega)]
      rw [hd, ih _ (by simp; omega)]
      rfl

theorem utf8Decode_append_zero (s : Bytes) : utf8Decode (s ++ [0]) = utf8Decode s ++ [0] := by
  unfold utf8Decode
  rw [List.length_append, List.length_singleton]
  exact utf8DecodeF_append_zero s.length s (Nat.le_refl _)

theorem utf8First_scalar (b0 : UInt8) (t : Bytes) : isScalar (utf8First (b0 :: t)).1 = true := by
  have hb0 := UInt8.toNat_lt b0
  simp only [isScalar, Bool.or_eq_true, Bool.and_eq_true, decide_eq_true_eq]
  rcases utf8First_cases b0 t with h | h | h | h
  · rcases h.2 with ⟨e, _⟩ | ⟨e, _⟩ <;> rw [e] <;> omega
  · omega
  · omega
  · omega

theorem utf8First_zero_iff (b0 : UInt8) (t : Bytes) :
    (utf8First (b0 :: t)).1 = 0 ↔ (0 : UInt8) ∈ (b0 :: t).take (utf8First (b0 :: t)).2 := by
  have nz : ∀ b : UInt8, 0x80 ≤ b.toNat → (0 : UInt8) ≠ b := by
    intro b hb e; rw [← e] at hb; simp at hb
  rcases utf8First_cases b0 t with h | h | h | h
  · rw [h.1]
    simp only [List.take_succ_cons, List.take_zero, List.mem_singleton]
    rcases h.2 with ⟨e, hl⟩ | ⟨e, hl⟩
    · rw [e]
      constructor
      · intro hz; apply UInt8.toNat_inj.mp; simp; omega
      · intro hz; rw [← hz]; simp
    · rw [e]
      constructor
      · intro hz; omega
      · intro hz; exact absurd hz (nz b0 hl)
  · obtain ⟨hw, h0, ⟨b1, t', rfl, l1⟩, lo, hi⟩ := h
    rw [hw]
    simp only [List.take_succ_cons, List.take_zero, List.mem_cons, List.not_mem_nil, or_false]
    constructor
    · intro hz; omega
    · rintro (hz | hz)
      · exact absurd hz (nz b0 h0)
      · exact absurd hz (nz b1 l1)
  · obtain ⟨hw, h0, ⟨b1, b2, t', rfl, l1, l2⟩, lo, hi, _⟩ := h
    rw [hw]
    simp only [List.take_succ_cons, List.take_zero, List.mem_cons, List.not_mem_nil, or_false]
    constructor
    · intro hz; omega
    · rintro (hz | hz | hz)
      · exact absurd hz (nz b0 h0)
      · exact absurd hz (nz b1 l1)
      · exact absurd hz (nz b2 l2)
  · obtain ⟨hw, h0, ⟨b1, b2, b3, t', rfl, l1, l2, l3⟩, lo, hi⟩ := h
    rw [hw]
    simp only [List.take_succ_cons, List.take_zero, List.mem_cons, List.not_mem_nil, or_false]
    constructor
    · intro hz; omega
    · rintro (hz | hz | hz | hz)
      · exact absurd hz (nz b0 h0)
      · exact absurd hz (nz b1 l1)
      · exact absurd hz (nz b2 l2)
      · exact absurd hz (nz b3 l3)

theorem utf8DecodeF_props : ∀ (f : Nat) (s : Bytes), s.length ≤ f →
    ((0 : Int) ∈ utf8DecodeF f s ↔ (0 : UInt8) ∈ s) ∧ (∀ r ∈ utf8DecodeF f s, isScalar r = true) := by
  intro f
  induction f with
  | zero =>
    intro s h
    have : s = [] := List.length_eq_zero_iff.mp (by omega)
    subst this
    simp [utf8DecodeF]
  | succ f ih =>
    intro s h
    match s with
    | [] => simp [utf8DecodeF]
    | b :: t =>
      simp only [List.length_cons] at h
      have hw := utf8First_width_le b t
      have hp := utf8First_width_pos b t
      have ⟨ih1, ih2⟩ := ih ((b :: t).drop (utf8First (b :: t)).2) (by simp; omega)
      rw [utf8DecodeF]
      constructor
      · rw [List.mem_cons, ih1]
        have hsplit : (0 : UInt8) ∈ b :: t ↔ (0 : UInt8) ∈ (b :: t).take (utf8First (b :: t)).2 ∨
            (0 : UInt8) ∈ (b :: t).drop (utf8First (b :: t)).2 := by
          rw [← List.mem_append, List.take_append_drop]
        rw [hsplit, ← utf8First_zero_iff]
        constructor
        · rintro (e | e)
          · exact Or.inl e.symm
          · exact Or.inr e
        · rintro (e | e)
          · exact Or.inl e.symm
          · exact Or.inr e
      · intro r hr
        rcases List.mem_cons.mp hr with e | e
        · rw [e]; exact utf8First_scalar b t
        · exact ih2 r e

theorem zero_mem_utf8Decode (s : Bytes) : (0 : Int) ∈ utf8Decode s ↔ (0 : UInt8) ∈ s :=
  (utf8DecodeF_props s.length s (Nat.le_refl _)).1

theorem utf8Decode_scalar (s : Bytes) : ∀ r ∈ utf8Decode s, isScalar r = true :=
  (utf8DecodeF_props s.length s (Nat.le_refl _)).2

theorem utf8Decode_length_zero (s : Bytes) : (utf8Decode s).length = 0 ↔ s.length = 0 := by
  cases s with
  | nil => simp [utf8Decode, utf8DecodeF]
  | cons b t => simp [utf8Decode, utf8DecodeF]

/-- The byte-level and the rune-level model of `UTF16FromString` agree. -/
theorem utf16FromStringB_eq_runes (s : Bytes) : utf16FromStringB s = utf16FromString (utf8Decode s) := by
  unfold utf16FromStringB utf16FromString
  by_cases h : s.length = 0
  · rw [if_pos h, if_pos ((utf8Decode_length_zero s).mpr h)]
  · rw [if_neg h, if_neg (fun e => h ((utf8Decode_length_zero s).mp e)), utf8Decode_append_zero]

theorem utf16FromStringB_eq (s : Bytes) :
    utf16FromStringB s =
      if (0 : UInt8) ∈ s then .err .einval else .ok (refEncode (utf8Decode s) ++ [0]) := by
  rw [utf16FromStringB_eq_runes, utf16FromString_eq]
  by_cases h : (0 : UInt8) ∈ s
  · rw [if_pos h, if_pos ((zero_mem_utf8Decode s).mpr h)]
  · rw [if_neg h, if_neg (fun e => h ((zero_mem_utf8Decode s).mp e))]

end XMT.Utf16
