/-
  XMT.ViewSites — what is required of the regenerated syntactic fact `Facts.c20ViewSites`: every slice
  expression taken over an array view `(*[N]T)(unsafe.Pointer(P))[lo:hi:max]` in device/,
  device/regedit, device/winapi, device/winapi/registry, device/winapi/svc — including the files that
  are `//go:build windows` and do not compile on the test host (they are parsed, not compiled).
  A site is `[file, function, array type, pointer operand, low, high, max]`, all bounds printed fully
  parenthesised; when the pointer operand is `&X[0]` it is printed `&#[0]` and `len(X)` in the bounds
  is printed `len(#)`.
  Core-only.
-/
import XMT.Generated.Facts
namespace XMT.ViewSites
open XMT

/-- The bound a view must have so that it covers no byte outside the slice it is laid over:
    * a `uint16` view over a byte slice: `[: len/2 : len/2]` (rounding down: an odd trailing byte is not
      covered — `XMT.Props.C20.string_view_guard_needed` shows what rounding up would do),
    * a `byte` view over a `uint16` slice: `[: len*2 : len*2]`,
    * the `[1 << 30]byte` view of `os.Args[0]` (device/y_nix_util.go): the string header's own length,
    * every other view is a fixed-size array sliced whole (`[:]`, no bound expression). -/
def siteOk (s : List String) : Bool :=
  match s with
  | [_, _, arr, ptr, lo, hi, mx] =>
    if arr = "[(1 << 29)]uint16" then
      ptr = "&#[0]" && lo = "" && hi = "(len(#) / 2)" && mx = "(len(#) / 2)"
    else if arr = "[(1 << 29)]byte" then
      ptr = "&#[0]" && lo = "" && hi = "(len(#) * 2)" && mx = "(len(#) * 2)"
    else if arr = "[(1 << 30)]byte" then
      ptr = "v.Data" && lo = "" && hi = "v.Len" && mx = ""
    else lo = "" && hi = "" && mx = ""
  | _ => false

/-- Is the site a `uint16` view of unbounded array type (the shape the registry decoders use)? -/
def isWordView (s : List String) : Bool :=
  match s with
  | [_, _, arr, _, _, _, _] => arr = "[(1 << 29)]uint16"
  | _ => false

/-- `file:function` of a site. -/
def siteWhere (s : List String) : List String := s.take 2

end XMT.ViewSites
