/-
  XMT.Work — executable model of c2/cfg/workhours.go (WorkHours.Work / Verify / Empty) for a zone
  without daylight-saving transitions.  Core-only.

  Go → Lean:
    * the five `uint8` fields are `Nat` (< 256, `Rule.WF`);
    * the current local time `n` is an `Inst`: `n.Weekday()` (0 = Sunday … 6 = Saturday) and
      `ns` = `n.Sub(midnight of n's day)` in nanoseconds;
    * `time.Date(y, m, d, H, M, 0, 0, l)` for the day of `n` is `clock H M` nanoseconds after that
      midnight (Go normalises a minute value of 60 by carrying into the hour, which is the same
      number); `time.Date(y, m, d+1, 0, …)` and `s.AddDate(0, 0, 1)` are `+ nsDay`;
    * `a.After(b)` is `a > b`, `a.Before(b)` is `a < b`, `a.Sub(b)` is `a - b` on `Int`
      (no saturation: all differences are within ±2 days);
    * the integer literals the code compares against come from `XMT.Facts` (read from the source).
-/
import XMT.Generated.Facts
namespace XMT.Work

structure Rule where
  days : Nat
  sh : Nat
  sm : Nat
  eh : Nat
  em : Nat
deriving Repr, DecidableEq

/-- the fields are Go `uint8` values -/
def Rule.WF (r : Rule) : Prop := r.days < 256 ∧ r.sh < 256 ∧ r.sm < 256 ∧ r.eh < 256 ∧ r.em < 256

instance (r : Rule) : Decidable r.WF := by unfold Rule.WF; infer_instance

def nsMinute : Int := Facts.c19Minute
def nsHour : Int := Facts.c19Hour
def nsDay : Int := 24 * nsHour

/-- the instant `n := time.Now()` as Work() sees it -/
structure Inst where
  wd : Nat
  ns : Int
deriving Repr, DecidableEq

def Inst.WF (t : Inst) : Prop := t.wd < 7 ∧ 0 ≤ t.ns ∧ t.ns < nsDay

instance (t : Inst) : Decidable t.WF := by unfold Inst.WF; infer_instance

/-- `w.StartHour == 0 && w.StartMin == 0 && w.EndHour == 0 && w.EndMin == 0` -/
def timesZero (r : Rule) : Bool := r.sh == 0 && r.sm == 0 && r.eh == 0 && r.em == 0

/-- `WorkHours.Empty` -/
def empty (r : Rule) : Bool :=
  r.sh == 0 && r.sm == 0 && r.eh == 0 && r.em == 0 && (r.days == 0 || decide (r.days > Facts.c19EmptyDaysAbove))

inductive VerifyErr | endMin | endHour | startMin | startHour
deriving Repr, DecidableEq

/-- `WorkHours.Verify`: the first failing `case` of the switch, `none` = nil error -/
def verify (r : Rule) : Option VerifyErr :=
  if r.em > Facts.c19VerifyEndMinMax then some .endMin
  else if r.eh > Facts.c19VerifyEndHourMax then some .endHour
  else if r.sm > Facts.c19VerifyStartMinMax then some .startMin
  else if r.sh > Facts.c19VerifyStartHourMax then some .startHour
  else none

/-- `time.Date(y, m, d, h, mi, 0, 0, l)` minus the midnight that starts day `d` -/
def clock (h mi : Nat) : Int := (h : Int) * nsHour + (mi : Int) * nsMinute

/-- `w.Days & (1 << uint(n.Weekday()))` in `uint8` arithmetic -/
def dayBit (r : Rule) (wd : Nat) : Nat := r.days &&& ((1 <<< wd) % 256)

/-- `(w.StartHour == 0 && w.StartMin == 0) || w.StartHour > 23 || w.StartMin > 60` -/
def startAtMidnight (r : Rule) : Bool :=
  (r.sh == 0 && r.sm == 0) || decide (r.sh > Facts.c19WorkStartHourMax) || decide (r.sm > Facts.c19WorkStartMinMax)

/-- `(w.EndHour == 0 && w.EndMin == 0) || w.EndHour > 23 || w.EndMin > 60` -/
def noEnd (r : Rule) : Bool :=
  (r.eh == 0 && r.em == 0) || decide (r.eh > Facts.c19WorkEndHourMax) || decide (r.em > Facts.c19WorkEndMinMax)

/-- first statement of Work(): `(w.Days == 0 || w.Days > 126) && w.StartHour == 0 && w.StartMin == 0 &&
w.EndHour == 0 && w.EndMin == 0` -/
def restAll (r : Rule) : Bool :=
  (r.days == 0 || decide (r.days > Facts.c19WorkDaysAbove)) && r.sh == 0 && r.sm == 0 && r.eh == 0 && r.em == 0

/-- `w.Days > 0 && w.Days < 127 && (w.Days&(1<<uint(n.Weekday()))) == 0` -/
def dayOff (r : Rule) (wd : Nat) : Bool :=
  decide (r.days > 0) && decide (r.days < Facts.c19WorkDaysBelow) && dayBit r wd == 0

/-- the start / end part of Work() (from `var ( y, m, d = n.Date() …` to the end) -/
def workWindow (r : Rule) (t : Inst) : Int :=
  let s : Int := if startAtMidnight r then 0 else clock r.sh r.sm
  if !startAtMidnight r && decide (s > t.ns) then s - t.ns      -- s.After(n) → s.Sub(n)
  else if noEnd r then 0
  else
    let e : Int := clock r.eh r.em
    if e < s then 0                               -- e.Before(s): "End is before start, bail."
    else if t.ns > e then (s + nsDay) - t.ns      -- n.After(e) → s.AddDate(0, 0, 1).Sub(n)
    else 0

/-- `WorkHours.Work`: nanoseconds to wait, `0` = work now.  Statement by statement. -/
def work (r : Rule) (t : Inst) : Int :=
  if restAll r then 0
  else if dayOff r t.wd then nsDay - t.ns          -- time.Date(y, m, d+1, 0, 0, 0, 0, loc).Sub(n)
  else if timesZero r then 0
  else workWindow r t

/-! ### Specification vocabulary (what "outside the configured days / start–end window" means) -/

/-- the day mask selects weekday `wd`: masks 0 and ≥ 127 select every day, otherwise bit `wd` -/
def dayIn (r : Rule) (wd : Nat) : Prop := r.days = 0 ∨ r.days ≥ 127 ∨ r.days.testBit wd = true

instance (r : Rule) (wd : Nat) : Decidable (dayIn r wd) := by unfold dayIn; infer_instance

/-- start of the window after local midnight: 00:00 when unset (0:0) or out of range -/
def startOf (r : Rule) : Int := if startAtMidnight r then 0 else clock r.sh r.sm

/-- end of the window after local midnight; `none` when unset (0:0) or out of range: open until
the end of the day -/
def endOf (r : Rule) : Option Int := if noEnd r then none else some (clock r.eh r.em)

/-- the current local time is outside the configured days / start–end window (both ends belong
to the window) -/
def Outside (r : Rule) (t : Inst) : Prop :=
  ¬ dayIn r t.wd ∨ t.ns < startOf r ∨ (∃ e, endOf r = some e ∧ e < t.ns)

/-- "rules whose end is not before their start" -/
def EndNotBeforeStart (r : Rule) : Prop := ∀ e, endOf r = some e → startOf r ≤ e

instance (r : Rule) : Decidable (EndNotBeforeStart r) := by
  unfold EndNotBeforeStart
  cases h : endOf r with
  | none => exact isTrue (by intro e he; cases he)
  | some e =>
    by_cases hs : startOf r ≤ e
    · exact isTrue (by intro e' he'; cases he'; exact hs)
    · exact isFalse (by intro hh; exact hs (hh e rfl))

instance (r : Rule) (t : Inst) : Decidable (Outside r t) := by
  unfold Outside
  cases h : endOf r with
  | none =>
    have : ¬ ∃ e, none = some e ∧ e < t.ns := by intro ⟨e, he, _⟩; cases he
    by_cases h1 : ¬ dayIn r t.wd
    · exact isTrue (Or.inl h1)
    · by_cases h2 : t.ns < startOf r
      · exact isTrue (Or.inr (Or.inl h2))
      · exact isFalse (by intro hh; rcases hh with hh | hh | hh <;> simp_all)
  | some e =>
    by_cases h1 : ¬ dayIn r t.wd
    · exact isTrue (Or.inl h1)
    · by_cases h2 : t.ns < startOf r
      · exact isTrue (Or.inr (Or.inl h2))
      · by_cases h3 : e < t.ns
        · exact isTrue (Or.inr (Or.inr ⟨e, rfl, h3⟩))
        · exact isFalse (by
            intro hh
            rcases hh with hh | hh | ⟨e', he', hlt⟩
            · exact h1 hh
            · exact h2 hh
            · cases he'; exact h3 hlt)

end XMT.Work
