/- Helper lemmas for the work-hours model (XMT.Work); the property theorems are in Props/C19. -/
import XMT.Work
namespace XMT.Work

theorem and_two_pow_eq_zero_iff (n i : Nat) : n &&& 2^i = 0 ↔ n.testBit i = false := by
  constructor
  · intro h
    have h2 : (n &&& 2^i).testBit i = false := by rw [h]; simp
    simpa [Nat.testBit_and, Nat.testBit_two_pow_self] using h2
  · intro h
    apply Nat.eq_of_testBit_eq
    intro j
    by_cases hij : i = j
    · subst hij; simp [Nat.testBit_and, h]
    · simp [Nat.testBit_and, hij]

/-- Go's `w.Days & (1 << weekday)` (uint8) is zero exactly when bit `weekday` of the mask is clear -/
theorem dayBit_eq_zero_iff (r : Rule) (wd : Nat) (h : wd < 7) :
    dayBit r wd = 0 ↔ r.days.testBit wd = false := by
  unfold dayBit
  rw [Nat.one_shiftLeft]
  have : 2 ^ wd < 256 := by
    have : wd = 0 ∨ wd = 1 ∨ wd = 2 ∨ wd = 3 ∨ wd = 4 ∨ wd = 5 ∨ wd = 6 := by omega
    rcases this with h | h | h | h | h | h | h <;> subst h <;> decide
  rw [Nat.mod_eq_of_lt this]
  exact and_two_pow_eq_zero_iff _ _

/-- what the proofs need from the literals read from workhours.go -/
def FactsOK : Prop :=
  Facts.c19WorkDaysAbove = 126 ∧ Facts.c19WorkDaysBelow = 127 ∧
  Facts.c19WorkStartHourMax ≤ 23 ∧ Facts.c19WorkStartMinMax ≤ 60 ∧
  Facts.c19WorkEndHourMax ≤ 23 ∧ Facts.c19WorkEndMinMax ≤ 60 ∧
  Facts.c19Hour = 3600000000000 ∧ Facts.c19Minute = 60000000000

instance : Decidable FactsOK := by unfold FactsOK; infer_instance

theorem dayOff_iff (hf : FactsOK) (r : Rule) (wd : Nat) (h : wd < 7) :
    dayOff r wd = true ↔ ¬ dayIn r wd := by
  obtain ⟨_, hB, _⟩ := hf
  have hb := dayBit_eq_zero_iff r wd h
  unfold dayOff dayIn
  rw [hB]
  simp only [Bool.and_eq_true, decide_eq_true_eq, beq_iff_eq]
  constructor
  · rintro ⟨⟨h1, h2⟩, h3⟩ hh
    rcases hh with hh | hh | hh
    · omega
    · omega
    · rw [hb.mp h3] at hh; cases hh
  · intro hh
    refine ⟨⟨?_, ?_⟩, ?_⟩
    · apply Nat.pos_of_ne_zero; intro h0; exact hh (Or.inl h0)
    · apply Nat.lt_of_not_le; intro h0; exact hh (Or.inr (Or.inl h0))
    · apply hb.mpr
      cases hbit : r.days.testBit wd with
      | false => rfl
      | true => exact absurd (Or.inr (Or.inr hbit)) hh

theorem restAll_timesZero (r : Rule) (h : restAll r = true) : timesZero r = true := by
  unfold restAll at h; unfold timesZero
  simp only [Bool.and_eq_true] at h ⊢
  obtain ⟨⟨⟨⟨_, h1⟩, h2⟩, h3⟩, h4⟩ := h
  exact ⟨⟨⟨h1, h2⟩, h3⟩, h4⟩

theorem timesZero_start (r : Rule) (h : timesZero r = true) : startAtMidnight r = true := by
  unfold timesZero at h; unfold startAtMidnight
  simp only [Bool.and_eq_true, Bool.or_eq_true] at h ⊢
  obtain ⟨⟨⟨h1, h2⟩, _⟩, _⟩ := h
  exact Or.inl (Or.inl ⟨h1, h2⟩)

theorem timesZero_noEnd (r : Rule) (h : timesZero r = true) : noEnd r = true := by
  unfold timesZero at h; unfold noEnd
  simp only [Bool.and_eq_true, Bool.or_eq_true] at h ⊢
  obtain ⟨⟨⟨_, _⟩, h3⟩, h4⟩ := h
  exact Or.inl (Or.inl ⟨h3, h4⟩)

/-- the declarative reading of Work(): which boundary is waited for -/
def workSpec (r : Rule) (t : Inst) : Int :=
  if ¬ dayIn r t.wd then nsDay - t.ns
  else if t.ns < startOf r then startOf r - t.ns
  else match endOf r with
    | none => 0
    | some e => if e < startOf r then 0 else if e < t.ns then startOf r + nsDay - t.ns else 0

theorem workWindow_eq (r : Rule) (t : Inst) (h0 : 0 ≤ t.ns) :
    workWindow r t =
      if t.ns < startOf r then startOf r - t.ns
      else match endOf r with
        | none => 0
        | some e => if e < startOf r then 0 else if e < t.ns then startOf r + nsDay - t.ns else 0 := by
  unfold workWindow startOf endOf
  cases hs : startAtMidnight r <;> cases he : noEnd r <;> simp <;> (try omega)
  all_goals (split <;> simp_all <;> omega)

theorem work_eq_workSpec (hf : FactsOK) (r : Rule) (t : Inst) (ht : t.WF) :
    work r t = workSpec r t := by
  obtain ⟨hwd, h0, _⟩ := ht
  have hday := dayOff_iff hf r t.wd hwd
  unfold work workSpec
  by_cases hd : dayIn r t.wd
  · have hoff : dayOff r t.wd = false := by
      cases h : dayOff r t.wd with
      | false => rfl
      | true => exact absurd hd (hday.mp h)
    rw [hoff]
    simp only [hd, not_true_eq_false, if_false, Bool.false_eq_true]
    by_cases htz : timesZero r = true
    · have h1 := timesZero_start r htz
      have h2 := timesZero_noEnd r htz
      have hs : startOf r = 0 := by unfold startOf; simp [h1]
      have he : endOf r = none := by unfold endOf; simp [h2]
      rw [hs, he]
      simp only [htz, if_true]
      have : ¬ t.ns < 0 := by omega
      simp [this]
    · have hra : restAll r = false := by
        cases h : restAll r with
        | false => rfl
        | true => exact absurd (restAll_timesZero r h) htz
      simp only [hra, htz, if_false, Bool.false_eq_true]
      exact workWindow_eq r t h0
  · have hoff : dayOff r t.wd = true := hday.mpr hd
    have hra : restAll r = false := by
      cases h : restAll r with
      | false => rfl
      | true =>
        exfalso
        obtain ⟨hA, hB, _⟩ := hf
        unfold restAll at h; unfold dayOff at hoff
        rw [hA] at h; rw [hB] at hoff
        simp only [Bool.and_eq_true, Bool.or_eq_true, decide_eq_true_eq, beq_iff_eq] at h hoff
        omega
    simp [hra, hoff, hd]

theorem clock_bounds (hf : FactsOK) (h m : Nat) (hh : h ≤ 23) (hm : m ≤ 60) :
    0 ≤ clock h m ∧ clock h m ≤ nsDay := by
  obtain ⟨_, _, _, _, _, _, hH, hM⟩ := hf
  unfold clock nsDay nsHour nsMinute
  rw [hH, hM]
  omega

theorem nsDay_eq (hf : FactsOK) : nsDay = 86400000000000 := by
  obtain ⟨_, _, _, _, _, _, hH, _⟩ := hf
  unfold nsDay nsHour
  rw [hH]; rfl

theorem startOf_bounds (hf : FactsOK) (r : Rule) : 0 ≤ startOf r ∧ startOf r ≤ nsDay := by
  unfold startOf
  cases h : startAtMidnight r with
  | true =>
    have := clock_bounds hf 0 0 (by omega) (by omega)
    simp only [if_true]
    unfold clock at this; simp at this; omega
  | false =>
    simp only [Bool.false_eq_true, if_false]
    unfold startAtMidnight at h
    simp only [Bool.or_eq_false_iff, decide_eq_false_iff_not] at h
    obtain ⟨⟨_, h1⟩, h2⟩ := h
    obtain ⟨_, _, hH, hM, _⟩ := hf
    exact clock_bounds ⟨‹_›, ‹_›, hH, hM, ‹_›⟩ r.sh r.sm (by omega) (by omega)

end XMT.Work
