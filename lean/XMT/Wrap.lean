/-
  XMT.Wrap — model of the wrapper stack (c2/cfg/profile.go MultiWrapper.Wrap/Unwrap, stackCloser),
  the stream-cipher wrappers (c2/wrapper/crypto.go: XOR and AES = CFB over a block function), the
  Base64-shift transform (c2/transform/base64.go) and the send/receive composition of c2/vars.go.

  A wrapper ("layer") is a writer state machine (`Write`/`Close`, each returning the `Write` calls
  it makes on the writer below) plus the function its reader computes from the complete byte
  stream below it.  Stdlib codecs (hex, base64, zlib, gzip) are abstract layers.
-/
import XMT.Base
namespace XMT.Wrap
open XMT

/-! ### Writers and layers -/

/-- An `io.WriteCloser` as a state machine; the observable is what reaches the final sink
(the `data.Chunk` of `writePacketTo`). -/
structure Writer where
  σ : Type
  st : σ
  write : σ → Bytes → σ × Bytes
  close : σ → σ × Bytes

/-- The `*data.Chunk` at the bottom: `Write` appends, `Close` does nothing. -/
def sink : Writer := { σ := Unit, st := (), write := fun _ b => ((), b), close := fun _ => ((), []) }

structure Layer where
  σ : Type
  init : σ
  /-- `Write(b)`: new state and the `Write` calls made on the writer below -/
  write : σ → Bytes → σ × List Bytes
  /-- `Close()`: new state and the `Write` calls made on the writer below (the flush) -/
  close : σ → σ × List Bytes
  /-- `Close()` also closes the writer below (`cipher.StreamWriter`, `crypto.writer`) -/
  closesUnder : Bool
  /-- what the `Unwrap` reader delivers in total, as a function of all bytes of the reader below -/
  dec : Bytes → Option Bytes

/-- several `Write` calls in a row -/
def Writer.writes (W : Writer) (s : W.σ) : List Bytes → W.σ × Bytes
  | [] => (s, [])
  | c :: cs =>
    let r := W.write s c
    let r' := W.writes r.1 cs
    (r'.1, r.2 ++ r'.2)

def Layer.writes (L : Layer) (s : L.σ) : List Bytes → L.σ × List Bytes
  | [] => (s, [])
  | c :: cs =>
    let r := L.write s c
    let r' := L.writes r.1 cs
    (r'.1, r.2 ++ r'.2)

/-- `&stackCloser{s: o, WriteCloser: L.Wrap(o)}`: `Write` goes to the layer's writer (which writes
into `o`); `Close` = `WriteCloser.Close()` (flush into `o`, and for some layers `o.Close()`), then
`s.Close()` (= `o.Close()`). -/
def stackCloser (L : Layer) (o : Writer) : Writer where
  σ := L.σ × o.σ
  st := (L.init, o.st)
  write := fun s x =>
    let r := L.write s.1 x
    let r' := o.writes s.2 r.2
    ((r.1, r'.1), r'.2)
  close := fun s =>
    let r := L.close s.1
    let r1 := o.writes s.2 r.2
    let r2 := if L.closesUnder then o.close r1.1 else (r1.1, [])
    let r3 := o.close r2.1
    ((r.1, r3.1), r1.2 ++ (r2.2 ++ r3.2))

/-- `MultiWrapper.Wrap(w)`: `for x := len(m)-1; x >= 0; x-- { o = &stackCloser{s: o, m[x].Wrap(o)} }` -/
def multiWrap (m : List Layer) (w : Writer) : Writer :=
  m.reverse.foldl (fun o L => stackCloser L o) w

/-- `MultiWrapper.Unwrap(r)`: `for x := len(m)-1; x >= 0; x-- { o = m[x].Unwrap(o) }` — the reader
returned is the composition, innermost (`m[len-1]`) applied to the wire first. -/
def multiUnwrap (m : List Layer) (wire : Bytes) : Option Bytes :=
  m.reverse.foldlM (fun o L => L.dec o) wire

/-- What reaches the sink when `ws` are written to `W` and it is then closed. -/
def Writer.run (W : Writer) (ws : List Bytes) : Bytes :=
  let r := W.writes W.st ws
  r.2 ++ (W.close r.1).2

/-- What a single layer writes below when `ws` are written to it and it is then closed. -/
def Layer.run (L : Layer) (ws : List Bytes) : List Bytes :=
  let r := L.writes L.init ws
  r.2 ++ (L.close r.1).2

/-! ### CFB stream wrappers (XOR, AES) -/

/-- `cipher.cfb` state: `next`, `out`, `outUsed`. -/
structure Cfb where
  next : Bytes
  out : Bytes
  used : Nat

/-- `newCFB(block, iv, decrypt)`; `none` = the "IV length must equal block size" panic. -/
def Cfb.new (blockSize : Nat) (iv : Bytes) : Option Cfb :=
  if iv.length ≠ blockSize then none
  else some { next := iv, out := List.replicate blockSize 0, used := blockSize }

/-- One byte of `XORKeyStream` (the Go loop handles a run of bytes up to the block boundary at
once; byte-wise it is the same computation). `E` is `Block.Encrypt`. `none`: no key-stream byte is
available (block size 0 or a short `E` result — Go spins forever or panics). -/
def Cfb.step (E : Bytes → Bytes) (decrypt : Bool) (s : Cfb) (x : UInt8) : Option (Cfb × UInt8) :=
  let s := if s.used = s.out.length then { s with out := E s.next, used := 0 } else s
  match s.out[s.used]? with
  | none => none
  | some o =>
    let y := x ^^^ o
    some ({ s with next := s.next.set s.used (if decrypt then x else y), used := s.used + 1 }, y)

/-- `XORKeyStream(dst, src)` -/
def Cfb.stream (E : Bytes → Bytes) (decrypt : Bool) : Cfb → Bytes → Option (Cfb × Bytes)
  | s, [] => some (s, [])
  | s, x :: xs => do
    let r ← Cfb.step E decrypt s x
    let r' ← Cfb.stream E decrypt r.1 xs
    some (r'.1, r.2 :: r'.2)

def Cfb.init (iv : Bytes) : Cfb := { next := iv, out := List.replicate iv.length 0, used := iv.length }

/-- `&cipher.StreamWriter{W: w, S: NewCFBEncrypter(b, iv)}`: one `Write` below per `Write`;
`Close` closes the writer below. State `none` = crashed. -/
def cfbLayer (E : Bytes → Bytes) (iv : Bytes) : Layer where
  σ := Option Cfb
  init := some (Cfb.init iv)
  write := fun s b =>
    match s.bind (Cfb.stream E false · b) with
    | none => (none, [])
    | some r => (some r.1, [r.2])
  close := fun s => (s, [])
  closesUnder := true
  dec := fun wire => (Cfb.stream E true (Cfb.init iv) wire).map (·.2)

/-- `crypto.XOR.Encrypt(dst, src)` for `len(src) = len(key)`: `subtle.XorBytes(dst, key, src)`. -/
def xorBlock (key : Bytes) (src : Bytes) : Bytes := List.zipWith (· ^^^ ·) key src

/-- `wrapper.NewXOR(k)`: `iv[i] = (k[i] + byte(i)) ^ 2`. -/
def xorIv (key : Bytes) : Bytes := key.mapIdx fun i k => (k + UInt8.ofNat i) ^^^ 2

def xorLayer (key : Bytes) : Layer := cfbLayer (xorBlock key) (xorIv key)

/-! ### Base64-shift transform -/

/-- `B64.Write`: `p[i] += byte(b)` then base64 (`enc64` = `base64.StdEncoding` encoder). -/
def b64Write (enc64 : Bytes → Bytes) (shift : UInt8) (p : Bytes) : Bytes :=
  enc64 (if shift ≠ 0 then p.map (· + shift) else p)

/-- `B64.Read`/`decodeShift`: decode, then `o[x] -= b`. -/
def b64Read (dec64 : Bytes → Option Bytes) (shift : UInt8) (p : Bytes) : Option Bytes :=
  (dec64 p).map fun o => if shift ≠ 0 then o.map (· - shift) else o

/-! ### Send / receive path (c2/vars.go) -/

/-- A transform: `Write(b, conn)` gives the bytes put on the connection (`none` = error),
`Read(b, w)` the bytes written to `w`. -/
structure Transform where
  write : Bytes → Option Bytes
  read : Bytes → Option Bytes

/-- `writePacketTo(c, w, n)` + the transform step of `writePacket`: `marshal` are the `Write` calls
of `Packet.Marshal`; `w = none` is the `w == nil` branch (direct `Marshal(c)`). -/
def writePacket (w : Option Writer) (t : Option Transform) (marshal : List Bytes) : Option Bytes :=
  let cache := match w with
    | none => marshal.flatten
    | some W => W.run marshal
  match t with
  | none => some cache           -- b.WriteTo(c)
  | some t => t.write cache

/-- `readPacket`: everything `ReadDeadline` collected (`wire`), transform, unwrap, unmarshal. -/
def readPacket {P : Type} (unwrap : Option (Bytes → Option Bytes)) (t : Option Transform)
    (unmarshal : Bytes → Option P) (wire : Bytes) : Option P := do
  let b ← match t with
    | none => some wire
    | some t => t.read wire
  let i ← match unwrap with
    | none => some b
    | some u => u b
  unmarshal i

end XMT.Wrap
