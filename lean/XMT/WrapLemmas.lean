/- Lemmas about the wrapper-stack model (XMT.Wrap): the stack-order theorem and the CFB layers. -/
import XMT.Wrap
namespace XMT.Wrap
open XMT

/-- A layer is lossless: whatever chunks are written and then closed, its reader gives back the
concatenation; after `Close`, further `Close` calls write nothing (the stack closes inner writers
more than once). -/
def LGood (L : Layer) : Prop :=
  ∃ Done : L.σ → Prop,
    (∀ s, Done s → (L.close s).2 = [] ∧ Done (L.close s).1) ∧
    (∀ ws, Done (L.close (L.writes L.init ws).1).1 ∧ L.dec (L.run ws).flatten = some ws.flatten)

/-- The same for a whole writer relative to a decoder of what reaches the sink. -/
def WGood (W : Writer) (d : Bytes → Option Bytes) : Prop :=
  ∃ Done : W.σ → Prop,
    (∀ s, Done s → (W.close s).2 = [] ∧ Done (W.close s).1) ∧
    (∀ ws, Done (W.close (W.writes W.st ws).1).1 ∧ d (W.run ws) = some ws.flatten)

theorem Writer.writes_append (W : Writer) (s : W.σ) (a b : List Bytes) :
    W.writes s (a ++ b) =
      ((W.writes (W.writes s a).1 b).1, (W.writes s a).2 ++ (W.writes (W.writes s a).1 b).2) := by
  induction a generalizing s with
  | nil => simp [Writer.writes]
  | cons c cs ih => simp [Writer.writes, ih, List.append_assoc]

theorem Layer.writes_append (L : Layer) (s : L.σ) (a b : List Bytes) :
    L.writes s (a ++ b) =
      ((L.writes (L.writes s a).1 b).1, (L.writes s a).2 ++ (L.writes (L.writes s a).1 b).2) := by
  induction a generalizing s with
  | nil => simp [Layer.writes]
  | cons c cs ih => simp [Layer.writes, ih, List.append_assoc]

theorem sink_writes (ws : List Bytes) : sink.writes () ws = ((), ws.flatten) := by
  induction ws with
  | nil => rfl
  | cons c cs ih =>
    have h : (sink.write () c) = ((), c) := rfl
    simp only [Writer.writes, h, ih, List.flatten_cons]
    rfl

theorem sink_good : WGood sink some := by
  refine ⟨fun _ => True, fun _ _ => ⟨rfl, trivial⟩, fun ws => ⟨trivial, ?_⟩⟩
  show some ((sink.writes () ws).2 ++ (sink.close (sink.writes () ws).1).2) = _
  rw [sink_writes]; simp [sink]

/-- Writes through a `stackCloser`: the layer's output chunks, in order, are what is written below. -/
theorem stackCloser_writes (L : Layer) (o : Writer) (a : L.σ) (b : o.σ) (ws : List Bytes) :
    (stackCloser L o).writes (a, b) ws =
      (((L.writes a ws).1, (o.writes b (L.writes a ws).2).1), (o.writes b (L.writes a ws).2).2) := by
  induction ws generalizing a b with
  | nil => rfl
  | cons c cs ih =>
    simp only [Writer.writes, Layer.writes]
    have : (stackCloser L o).write (a, b) c =
        (((L.write a c).1, (o.writes b (L.write a c).2).1), (o.writes b (L.write a c).2).2) := rfl
    rw [this, ih, Writer.writes_append]
    rfl

/-- The closes a `stackCloser` performs on the writer below: once by the layer's own `Close` (for
layers that close their underlying writer) and once by `s.Close()`. -/
def closeBelow (o : Writer) (under : Bool) (s : o.σ) : o.σ × Bytes :=
  let r2 := if under then o.close s else (s, [])
  let r3 := o.close r2.1
  (r3.1, r2.2 ++ r3.2)

theorem stackCloser_close (L : Layer) (o : Writer) (a : L.σ) (b : o.σ) :
    (stackCloser L o).close (a, b) =
      (((L.close a).1, (closeBelow o L.closesUnder (o.writes b (L.close a).2).1).1),
        (o.writes b (L.close a).2).2 ++ (closeBelow o L.closesUnder (o.writes b (L.close a).2).1).2) := rfl

theorem closeBelow_first {o : Writer} {DO : o.σ → Prop}
    (hDO : ∀ s, DO s → (o.close s).2 = [] ∧ DO (o.close s).1) (under : Bool) (s : o.σ)
    (h : DO (o.close s).1) :
    (closeBelow o under s).2 = (o.close s).2 ∧ DO (closeBelow o under s).1 := by
  obtain ⟨e, d⟩ := hDO _ h
  cases under
  · simp [closeBelow, h]
  · simp [closeBelow, e, d]

theorem closeBelow_done {o : Writer} {DO : o.σ → Prop}
    (hDO : ∀ s, DO s → (o.close s).2 = [] ∧ DO (o.close s).1) (under : Bool) (s : o.σ) (h : DO s) :
    (closeBelow o under s).2 = [] ∧ DO (closeBelow o under s).1 := by
  obtain ⟨e, d⟩ := hDO _ h
  obtain ⟨e', d'⟩ := hDO _ d
  cases under
  · simp [closeBelow, e, d]
  · simp [closeBelow, e, e', d']

/-- One more layer on a good writer is a good writer for the composed decoder. -/
theorem stackCloser_good (L : Layer) (o : Writer) (d : Bytes → Option Bytes)
    (hL : LGood L) (ho : WGood o d) : WGood (stackCloser L o) (fun wire => (d wire).bind L.dec) := by
  obtain ⟨DL, hDL, hLr⟩ := hL
  obtain ⟨DO, hDO, hOr⟩ := ho
  refine ⟨fun s => DL s.1 ∧ DO s.2, ?_, ?_⟩
  · rintro ⟨a, b⟩ ⟨ha, hb⟩
    obtain ⟨e1, d1⟩ := hDL a ha
    obtain ⟨e2, d2⟩ := closeBelow_done hDO L.closesUnder b hb
    rw [stackCloser_close, e1]
    simp only [Writer.writes]
    exact ⟨by simp [e2], d1, d2⟩
  · intro ws
    obtain ⟨dl, hdec⟩ := hLr ws
    obtain ⟨dO, hdO⟩ := hOr (L.run ws)
    have hst : (stackCloser L o).st = (L.init, o.st) := rfl
    have hw := stackCloser_writes L o L.init o.st ws
    -- everything the layer writes below, during the writes and at its Close, in that order
    have hwa := Writer.writes_append o o.st (L.writes L.init ws).2 (L.close (L.writes L.init ws).1).2
    have hrun : (L.writes L.init ws).2 ++ (L.close (L.writes L.init ws).1).2 = L.run ws := rfl
    rw [hrun] at hwa
    have h1 : (o.writes (o.writes o.st (L.writes L.init ws).2).1 (L.close (L.writes L.init ws).1).2).1
        = (o.writes o.st (L.run ws)).1 := by rw [hwa]
    have h2 : (o.writes o.st (L.writes L.init ws).2).2 ++
        (o.writes (o.writes o.st (L.writes L.init ws).2).1 (L.close (L.writes L.init ws).1).2).2
        = (o.writes o.st (L.run ws)).2 := by rw [hwa]
    obtain ⟨e3, d3⟩ := closeBelow_first hDO L.closesUnder (o.writes o.st (L.run ws)).1 dO
    have hcl : (stackCloser L o).close ((stackCloser L o).writes (stackCloser L o).st ws).1 =
        (((L.close (L.writes L.init ws).1).1, (closeBelow o L.closesUnder (o.writes o.st (L.run ws)).1).1),
          (o.writes (o.writes o.st (L.writes L.init ws).2).1 (L.close (L.writes L.init ws).1).2).2 ++
            (o.close (o.writes o.st (L.run ws)).1).2) := by
      rw [hst, hw, stackCloser_close, h1, e3]
    have hrunS : (stackCloser L o).run ws = o.run (L.run ws) := by
      show ((stackCloser L o).writes (stackCloser L o).st ws).2 ++
        ((stackCloser L o).close ((stackCloser L o).writes (stackCloser L o).st ws).1).2 = _
      rw [hcl, hst, hw]
      show _ ++ (_ ++ _) = (o.writes o.st (L.run ws)).2 ++ (o.close (o.writes o.st (L.run ws)).1).2
      rw [← List.append_assoc, h2]
    refine ⟨?_, ?_⟩
    · rw [hcl]; exact ⟨dl, d3⟩
    · show (d ((stackCloser L o).run ws)).bind L.dec = _
      rw [hrunS, hdO]; exact hdec

theorem multiWrap_cons (L : Layer) (m : List Layer) (w : Writer) :
    multiWrap (L :: m) w = stackCloser L (multiWrap m w) := by
  simp [multiWrap, List.foldl_append]

theorem multiUnwrap_cons (L : Layer) (m : List Layer) (wire : Bytes) :
    multiUnwrap (L :: m) wire = (multiUnwrap m wire).bind L.dec := by
  simp [multiUnwrap, List.foldlM_append]

theorem multiWrap_good (m : List Layer) (h : ∀ L ∈ m, LGood L) :
    WGood (multiWrap m sink) (multiUnwrap m) := by
  induction m with
  | nil =>
    have : multiUnwrap [] = some := by funext w; simp [multiUnwrap]
    rw [this]; exact sink_good
  | cons L m ih =>
    rw [multiWrap_cons]
    have : multiUnwrap (L :: m) = fun wire => (multiUnwrap m wire).bind L.dec := by
      funext w; exact multiUnwrap_cons L m w
    rw [this]
    exact stackCloser_good L _ _ (h L (by simp)) (ih fun L' hL' => h L' (by simp [hL']))

/-! ### CFB layers (XOR, AES) -/

/-- State invariant of `cipher.cfb` for block size `n`. -/
def Cfb.Inv (n : Nat) (s : Cfb) : Prop := s.next.length = n ∧ s.out.length = n ∧ s.used ≤ n

/-- `Block.Encrypt` writes a full block. -/
def BlockFn (n : Nat) (E : Bytes → Bytes) : Prop := ∀ x, x.length = n → (E x).length = n

theorem Cfb.init_inv (iv : Bytes) : Cfb.Inv iv.length (Cfb.init iv) := by
  simp [Cfb.Inv, Cfb.init]

theorem Cfb.step_enc {n : Nat} {E : Bytes → Bytes} (hn : 0 < n) (hE : BlockFn n E) (s : Cfb)
    (hs : Cfb.Inv n s) (x : UInt8) :
    ∃ s' y, Cfb.step E false s x = some (s', y) ∧ Cfb.step E true s y = some (s', x) ∧ Cfb.Inv n s' := by
  obtain ⟨h1, h2, h3⟩ := hs
  unfold Cfb.step
  by_cases hu : s.used = s.out.length
  · have hl : (E s.next).length = n := hE _ h1
    have h0 : 0 < (E s.next).length := by omega
    simp only [hu, if_true, List.getElem?_eq_getElem h0]
    refine ⟨_, _, rfl, ?_, ?_⟩
    · simp [UInt8.xor_assoc]
    · simp [Cfb.Inv, h1, hl]; omega
  · have hlt : s.used < s.out.length := by omega
    simp only [hu, if_false, List.getElem?_eq_getElem hlt]
    refine ⟨_, _, rfl, ?_, ?_⟩
    · simp [UInt8.xor_assoc]
    · simp [Cfb.Inv, h1, h2]; omega

theorem Cfb.stream_enc {n : Nat} {E : Bytes → Bytes} (hn : 0 < n) (hE : BlockFn n E) (s : Cfb)
    (hs : Cfb.Inv n s) (p : Bytes) :
    ∃ s' c, Cfb.stream E false s p = some (s', c) ∧ Cfb.stream E true s c = some (s', p) ∧
      Cfb.Inv n s' := by
  induction p generalizing s with
  | nil => exact ⟨s, [], rfl, rfl, hs⟩
  | cons x xs ih =>
    obtain ⟨s1, y, e1, e2, i1⟩ := Cfb.step_enc hn hE s hs x
    obtain ⟨s2, c, e3, e4, i2⟩ := ih s1 i1
    refine ⟨s2, y :: c, ?_, ?_, i2⟩
    · simp [Cfb.stream, e1, e3]
    · simp [Cfb.stream, e2, e4]

theorem Cfb.stream_append (E : Bytes → Bytes) (d : Bool) (s : Cfb) (a b : Bytes) :
    Cfb.stream E d s (a ++ b) =
      (Cfb.stream E d s a).bind fun r => (Cfb.stream E d r.1 b).map fun r' => (r'.1, r.2 ++ r'.2) := by
  induction a generalizing s with
  | nil => simp [Cfb.stream]
  | cons x xs ih =>
    simp only [List.cons_append, Cfb.stream]
    cases Cfb.step E d s x with
    | none => rfl
    | some r =>
      simp only [Option.bind_eq_bind, Option.bind_some, ih]
      cases Cfb.stream E d r.1 xs with
      | none => rfl
      | some r1 =>
        simp only [Option.bind_some]
        cases Cfb.stream E d r1.1 b with
        | none => rfl
        | some r2 => simp

/-- Writing chunks through the CFB writer = encrypting the concatenation, one output `Write` per input
`Write`. -/
theorem cfbLayer_writes {n : Nat} {E : Bytes → Bytes} (hn : 0 < n) (hE : BlockFn n E) (iv : Bytes)
    (s : Cfb) (hs : Cfb.Inv n s) (ws : List Bytes) :
    ∃ s' c, Cfb.stream E false s ws.flatten = some (s', c) ∧ Cfb.Inv n s' ∧
      ((cfbLayer E iv).writes (some s) ws).1 = some s' ∧
      ((cfbLayer E iv).writes (some s) ws).2.flatten = c := by
  induction ws generalizing s with
  | nil => exact ⟨s, [], rfl, hs, rfl, rfl⟩
  | cons w ws ih =>
    obtain ⟨s1, c1, e1, _, i1⟩ := Cfb.stream_enc hn hE s hs w
    obtain ⟨s2, c2, e2, i2, f1, f2⟩ := ih s1 i1
    have hw : (cfbLayer E iv).write (some s) w = (some s1, [c1]) := by
      show (match (some s).bind (Cfb.stream E false · w) with
        | none => (none, []) | some r => (some r.1, [r.2])) = _
      simp [e1]
    refine ⟨s2, c1 ++ c2, ?_, i2, ?_, ?_⟩
    · rw [List.flatten_cons, Cfb.stream_append, e1]; simp [e2]
    · simp only [Layer.writes, hw]; exact f1
    · simp only [Layer.writes, hw, List.flatten_append, f2]; simp

/-- The XOR and AES wrappers are lossless layers: CFB needs nothing from the block function except
that it fills a block. -/
theorem cfbLayer_good {E : Bytes → Bytes} {iv : Bytes} (hn : 0 < iv.length) (hE : BlockFn iv.length E) :
    LGood (cfbLayer E iv) := by
  refine ⟨fun _ => True, fun _ _ => ⟨rfl, trivial⟩, fun ws => ⟨trivial, ?_⟩⟩
  obtain ⟨s', c, e1, i1, f1, f2⟩ := cfbLayer_writes hn hE iv (Cfb.init iv) (Cfb.init_inv iv) ws
  obtain ⟨s'', c', e1', e2', _⟩ := Cfb.stream_enc hn hE (Cfb.init iv) (Cfb.init_inv iv) ws.flatten
  rw [e1] at e1'; cases e1'
  have hrun : ((cfbLayer E iv).run ws).flatten = c := by
    show (((cfbLayer E iv).writes (some (Cfb.init iv)) ws).2 ++ []).flatten = c
    simp [f2]
  show (Cfb.stream E true (Cfb.init iv) ((cfbLayer E iv).run ws).flatten).map (·.2) = _
  rw [hrun, e2']; rfl

theorem xorBlock_blockFn (key : Bytes) : BlockFn key.length (xorBlock key) := by
  intro x hx; simp [xorBlock, hx]

theorem xorIv_length (key : Bytes) : (xorIv key).length = key.length := by simp [xorIv]

theorem xorLayer_good (key : Bytes) (h : key ≠ []) : LGood (xorLayer key) := by
  have hl : 0 < key.length := List.length_pos_iff.mpr h
  apply cfbLayer_good
  · rw [xorIv_length]; exact hl
  · rw [xorIv_length]; exact xorBlock_blockFn key

/-! ### Base64-shift -/

theorem b64_roundtrip (enc64 : Bytes → Bytes) (dec64 : Bytes → Option Bytes)
    (h64 : ∀ x, dec64 (enc64 x) = some x) (shift : UInt8) (p : Bytes) :
    b64Read dec64 shift (b64Write enc64 shift p) = some p := by
  unfold b64Read b64Write
  rw [h64]
  by_cases h : shift = 0
  · simp [h]
  · simp [h, Function.comp_def, UInt8.add_sub_cancel]

end XMT.Wrap
