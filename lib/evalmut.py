#!/usr/bin/env python3
"""lead-only helper: evaluate one seeded change produced by an independent sub-agent.

  evalmut.py <mutdir> <Cxx> <k> --demo "<command run in the scratch worktree>" [--demo-files f1 f2]

1. scratch worktree of /repo at the sub-agent's base commit; demo must PASS there;
2. apply patch.diff; existing suite (the pinned baseline test list) must still pass; demo must FAIL;
3. apply the patch to /repo itself, run ./check Cxx (quick, then thorough if quick is silent),
   undo with git checkout; record the verdict in /verif/seeded/<Cxx>-<k>/meta.json.
"""
import argparse
import json
import os
import shutil
import subprocess
import sys
import time

ENV = dict(os.environ, GOFLAGS="-mod=mod", GOPROXY="off", GOSUMDB="off", GOTOOLCHAIN="local")


def sh(cmd, cwd=None, timeout=3000):
    p = subprocess.run(cmd, shell=True, cwd=cwd, env=ENV, capture_output=True, text=True, timeout=timeout)
    return p.returncode, (p.stdout + p.stderr)


def baseline_pass(wt):
    want = set(json.load(open("/root/.vp/BASELINE.json"))["stable_pass"])
    rc, out = sh("go test -vet=off -json ./... 2>/dev/null", cwd=wt, timeout=1500)  # cached for packages the change does not reach (fixed worktree path)
    passed = set()
    for line in out.split("\n"):
        try:
            e = json.loads(line)
        except ValueError:
            continue
        if e.get("Action") == "pass" and e.get("Test") and "/" not in e["Test"]:
            passed.add("%s::%s" % (e["Package"], e["Test"]))
    return want - passed


def main():
    ap = argparse.ArgumentParser()
    ap.add_argument("mutdir")
    ap.add_argument("pid")
    ap.add_argument("k")
    ap.add_argument("--demo", required=True)
    ap.add_argument("--demo-files", nargs="*", default=[])
    ap.add_argument("--needs", default="")
    ap.add_argument("--skip-validate", action="store_true")
    ap.add_argument("--quick-only", action="store_true", help="do not run the thorough tier when the quick tier is silent (round 4: time)")
    ap.add_argument("--as", dest="as_k", default=None, help="store as seeded/<Cxx>-<as>")
    a = ap.parse_args()
    src = os.path.join(a.mutdir, a.k)
    patch = os.path.join(src, "patch.diff")
    sid = "%s-%s" % (a.pid, a.as_k or a.k)
    dst = os.path.join("/verif/seeded", sid)
    meta = {"property": a.pid, "source": "independent sub-agent (given only the property text and a scratch worktree)", "needs": a.needs,
            "demo_cmd": a.demo, "ran": []}
    base = subprocess.run(["git", "-C", os.path.join(a.mutdir, "repo"), "rev-parse", "HEAD"], capture_output=True, text=True).stdout.strip()
    meta["base_commit"] = base
    wt = "/tmp/evalmut_wt"
    if not a.skip_validate:
        sh("git -C /repo worktree remove --force %s" % wt)
        rc, out = sh("git -C /repo worktree add --detach %s %s" % (wt, base))
        if rc != 0:
            print(out)
            return 2
        try:
            for f in a.demo_files:
                rel = os.path.relpath(f, src) if f.startswith(src) else os.path.basename(f)
                # demo files keep their path relative to the repo when stored as <k>/<path>; a file
                # stored flat is put in place by the demo command itself (a stray _test.go in the
                # repository root would break `go test ./...`)
                if os.sep not in rel:
                    continue
                tgt = os.path.join(wt, rel)
                os.makedirs(os.path.dirname(tgt), exist_ok=True)
                shutil.copy(f, tgt)
            # the pinned baseline tests run with the change but WITHOUT the demo files (a demo may disturb
            # the test binary of the package it is copied into)
            rc, out = sh("git apply %s" % patch, cwd=wt)
            if rc != 0:
                print("patch does not apply to its base:", out)
                return 2
            missing = baseline_pass(wt)
            meta["ran"].append({"what": "pinned baseline tests with the change", "missing_or_failing": sorted(missing)})
            sh("git apply -R %s" % patch, cwd=wt)
            rc0, out0 = sh(a.demo, cwd=wt)
            meta["ran"].append({"what": "demo on pristine tree", "rc": rc0, "tail": out0[-600:]})
            rc, out = sh("git apply %s" % patch, cwd=wt)
            rc1, out1 = sh(a.demo, cwd=wt)
            meta["ran"].append({"what": "demo with the change", "rc": rc1, "tail": out1[-900:]})
            meta["valid"] = (rc0 == 0 and rc1 != 0 and not missing)
            print("validate: demo pristine rc=%d, with change rc=%d, baseline missing=%s -> valid=%s" % (rc0, rc1, sorted(missing), meta["valid"]))
        finally:
            sh("git -C /repo worktree remove --force %s" % wt)
            shutil.rmtree(wt, ignore_errors=True)
    # run our checks against the change, in /repo itself
    rc, out = sh("git -C /repo status --porcelain")
    if out.strip():
        print("/repo not clean, abort:", out)
        return 2
    rc, out = sh("git -C /repo apply %s" % patch)
    if rc != 0:
        rc, out = sh("git -C /repo apply --3way %s" % patch)
    if rc != 0:
        print("patch does not apply to current /repo:", out[-800:])
        meta["applies_to_head"] = False
    else:
        meta["applies_to_head"] = True
        try:
            caught = None
            for tier in (("quick",) if a.quick_only else ("quick", "thorough")):
                t0 = time.time()
                rc, out = sh("./check %s --tier %s" % (a.pid, tier), cwd="/verif", timeout=6000)
                viol = [l for l in out.split("\n") if l.startswith("VIOLATION")]
                meta["ran"].append({"what": "./check %s --tier %s with the change applied to /repo" % (a.pid, tier), "rc": rc, "violations": viol[:4],
                                    "wall_s": round(time.time() - t0, 1), "summary": out.strip().split("\n")[-1][-300:]})
                print(tier, "rc=%d" % rc, viol[:2])
                if rc != 0:
                    caught = tier
                    # keep the first replay for the record
                    if viol:
                        rp = viol[0].split("replay=")[1].split()[0]
                        try:
                            r = json.load(open(rp))
                            meta["replay_excerpt"] = {k: r.get(k) for k in ("kind", "key", "detail", "no_longer_checks") if k in r}
                            if isinstance(meta["replay_excerpt"].get("detail"), str):
                                meta["replay_excerpt"]["detail"] = meta["replay_excerpt"]["detail"][:400]
                        except (OSError, ValueError):
                            pass
                    break
            meta["caught_by"] = ("./check %s --tier %s" % (a.pid, caught)) if caught else "NOT CAUGHT"
        finally:
            sh("git -C /repo reset -q --hard HEAD && git -C /repo clean -fdq")
    os.makedirs(dst, exist_ok=True)
    shutil.copy(patch, os.path.join(dst, "patch.diff"))
    for f in a.demo_files:
        shutil.copy(f, os.path.join(dst, os.path.basename(f)))
    if os.path.exists(os.path.join(src, "README.md")):
        shutil.copy(os.path.join(src, "README.md"), os.path.join(dst, "README.md"))
    json.dump(meta, open(os.path.join(dst, "meta.json"), "w"), indent=1)
    print("->", dst, meta.get("caught_by"))
    return 0


if __name__ == "__main__":
    sys.exit(main())
