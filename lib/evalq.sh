#!/bin/bash
# serial evaluation queue: each line of /tmp/evalq.txt is a shell command; processed once, in order
touch /tmp/evalq.txt /tmp/evalq.done
n=0
while [ ! -e /tmp/evalq.stop ]; do
  total=$(wc -l < /tmp/evalq.txt)
  if [ "$n" -lt "$total" ]; then
    n=$((n+1))
    cmd=$(sed -n "${n}p" /tmp/evalq.txt)
    echo "=== [$n] $(date +%H:%M:%S) $cmd" >> /tmp/evalq.log
    ( cd /verif && eval "$cmd" ) >> /tmp/evalq.log 2>&1
    echo "$n" > /tmp/evalq.done
  else
    sleep 5
  fi
done
