#!/bin/bash
cd /verif
export VERIF_SEED=1 VERIF_TIER=quick
for p in C01 C02 C03 C04 C05 C06 C07 C08 C09 C10 C11 C12 C13 C14 C15 C16 C17 C18 C19 C20; do
  echo "== $p $(date +%H:%M:%S)"
  ./check $p 2>&1 | grep -v "^WARNING" | tail -4
  echo "rc=${PIPESTATUS[0]}"
done
echo DONE
