#!/usr/bin/env python3
"""lead-only helper: after cherry-picking an agent's fix commits, replace the commit subjects in
known/*.json by the hashes the commits have on /repo's main branch."""
import glob, json, subprocess
log = subprocess.run(['git', '-C', '/repo', 'log', '--format=%h %s'], capture_output=True, text=True).stdout.strip().split('\n')
subj = {l.split(' ', 1)[1]: l.split(' ', 1)[0] for l in log}
for f in glob.glob('/verif/known/*.json'):
    d = json.load(open(f)); ch = False
    for k in d.get('findings', []):
        if k.get('status') == 'fixed' and 'commit_subject' not in k:
            c = k.get('commit', '')
            for s, h in subj.items():
                if c == s or c in s or s in c:
                    k['commit_subject'] = s; k['commit'] = h; ch = True
    if ch:
        json.dump(d, open(f, 'w'), indent=1)
