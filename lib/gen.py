#!/usr/bin/env python3
"""Regenerates the files that merely enumerate per-property pieces: lean/Main.lean (driver
dispatch over XMT/Drv/C*.lean), lean/XMT.lean (library root) and MANIFEST.json (from lib/props/*.json)."""
import glob
import json
import os
import re

VERIF = os.path.dirname(os.path.dirname(os.path.abspath(__file__)))
LEAN = os.path.join(VERIF, "lean")


def write_if_changed(path, text):
    if not os.path.exists(path) or open(path).read() != text:
        open(path, "w").write(text)


def load_props():
    props = {}
    for f in sorted(glob.glob(os.path.join(VERIF, "lib", "props", "C*.json"))):
        props[os.path.basename(f)[:-5]] = json.load(open(f))
    return props


def gen_lean():
    drv = sorted(os.path.basename(f)[:-5] for f in glob.glob(os.path.join(LEAN, "XMT", "Drv", "C*.lean")))
    main = "".join("import XMT.Drv.%s\n" % d for d in drv)
    main += "\ndef dispatch (line : String) : String :=\n  match (line.trimAscii.toString.splitOn \" \").filter (· ≠ \"\") with\n"
    for d in drv:
        main += "  | \"%s\" :: args => XMT.Drv.%s.handle args\n" % (d, d)
    main += "  | _ => \"bad-op\"\n\n"
    main += ("partial def loop (h : IO.FS.Stream) (out : IO.FS.Stream) : IO Unit := do\n"
             "  let line ← h.getLine\n  if line.isEmpty then return ()\n  out.putStrLn (dispatch line)\n  loop h out\n\n"
             "def main : IO Unit := do\n  let out ← IO.getStdout\n  loop (← IO.getStdin) out\n  out.flush\n")
    write_if_changed(os.path.join(LEAN, "Main.lean"), main)
    mods = []
    for root, _, files in os.walk(os.path.join(LEAN, "XMT")):
        for f in files:
            if f.endswith(".lean"):
                rel = os.path.relpath(os.path.join(root, f), LEAN)[:-5].replace(os.sep, ".")
                if ".Audit." in rel:
                    continue
                mods.append(rel)
    write_if_changed(os.path.join(LEAN, "XMT.lean"), "".join("import %s\n" % m for m in sorted(mods)))


def gen_manifest():
    props = load_props()
    base_off = "for m in $(cat /w/out/gomods.txt); do MF=$(cd /repo/$m && . /w/out/goenv.sh && gomodflag); (cd /repo/$m && go test $MF -json -vet=off -count=1 -timeout 25m ./...); done"
    claimed = {k: v for k, v in props.items() if not v.get("not_applicable")}
    man = {
        "version": 1,
        "setup_cmd": "./setup.sh",
        "hooks": {"guard": "verif",
                  "enable": "go build -tags verif -overlay /verif/build/overlay.json -ldflags=-checklinkname=0 (hook files live under /verif/go/hooks, carry //go:build verif, and are mounted into the package directories by -overlay; /repo is not edited for instrumentation)",
                  "baseline_off_cmd": base_off, "source_commits": [], "add_only": True},
        "engines": [
            {"name": "lean-model", "path": "lean/", "serves_properties": sorted(claimed), "kind_free_text": "Lean 4 executable models + kernel-checked theorems (lake project XMT, core only) and the compiled model driver xmtmodel"},
            {"name": "xmth", "path": "go/cmd/xmth", "serves_properties": sorted(claimed), "kind_free_text": "Go harness: drives the real code in-process (hooks via -overlay), generators, direct property oracles, facts extraction for Generated/Facts.lean"}],
        "checks": [],
        "not_applicable": [{"property_id": k, "reason": v["not_applicable"]} for k, v in sorted(props.items()) if v.get("not_applicable")],
        "notes": "One entry point: ./check Cxx --tier quick|thorough [--replay file]. See DESIGN.md. Known findings: known_findings.json.",
    }
    for pid, c in sorted(claimed.items()):
        man["checks"].append({
            "property_id": pid,
            "quick_cmd": "./check %s --tier quick" % pid,
            "thorough_cmd": "./check %s --tier thorough" % pid,
            "evidence_file": "/verif/evidence/%s.json" % pid,
            "replay_cmd_template": "./check %s --replay {path}" % pid,
            "engine": "lean-model",
            "level_claimed": {"category": "proof", "text": c.get("level_text", ""), "design_ref": c.get("design_ref", "DESIGN.md §7 " + pid)},
            "level_note": c.get("level_note", ""),
            "technique": c.get("technique", "Lean 4 proof over executable model + differential correspondence check against the real code"),
        })
    write_if_changed(os.path.join(VERIF, "MANIFEST.json"), json.dumps(man, indent=1) + "\n")


if __name__ == "__main__":
    gen_lean()
    gen_manifest()
