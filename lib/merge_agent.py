#!/usr/bin/env python3
"""lead-only helper: merge the files a builder agent created in /tmp/w_<id>/verif into /verif.
Copies only files that do not exist in /verif yet (or that belong to the given property ids);
never touches shared files."""
import filecmp
import os
import shutil
import sys

aid = sys.argv[1]
pids = sys.argv[2:]
src = "/tmp/w_%s/verif" % aid
dst = "/verif"
SKIP_DIRS = {".git", "build", "evidence", "replays", ".lake", "__pycache__", "Audit", "Generated"}
SKIP_FILES = {"lean/Main.lean", "lean/XMT.lean", "MANIFEST.json", "go/go.sum", "go/go.mod", "lean/lake-manifest.json"}
copied, differ = [], []
for root, dirs, files in os.walk(src):
    dirs[:] = [d for d in dirs if d not in SKIP_DIRS]
    for f in files:
        p = os.path.join(root, f)
        rel = os.path.relpath(p, src)
        if rel in SKIP_FILES:
            continue
        q = os.path.join(dst, rel)
        if not os.path.exists(q):
            os.makedirs(os.path.dirname(q), exist_ok=True)
            shutil.copy2(p, q)
            copied.append(rel)
        elif not filecmp.cmp(p, q, shallow=False):
            owned = any(pid in rel or pid.lower() in rel.lower() for pid in pids)
            if owned:
                shutil.copy2(p, q)
                copied.append(rel + " (updated)")
            else:
                differ.append(rel)
print("copied:", *copied, sep="\n  ")
print("differs (shared, NOT copied):", *differ, sep="\n  ")
