#!/usr/bin/env python3
"""Regenerates the generated appendix of DESIGN.md (between the GENERATED markers) from the files
that define the checks: lib/props/*.json, known_findings.json, known/*.json, lean/XMT/Props/*.lean,
seeded/*/meta.json."""
import glob
import json
import os
import re
import subprocess

V = os.path.dirname(os.path.dirname(os.path.abspath(__file__)))


def theorems(pid):
    p = os.path.join(V, "lean", "XMT", "Props", pid + ".lean")
    if not os.path.exists(p):
        return []
    return re.findall(r"^theorem\s+([A-Za-z_][\w'.]*)", open(p).read(), re.M)


def main():
    props = {}
    for f in sorted(glob.glob(os.path.join(V, "lib", "props", "C*.json"))):
        props[os.path.basename(f)[:-5]] = json.load(open(f))
    known = json.load(open(os.path.join(V, "known_findings.json"))).get("findings", [])
    for f in sorted(glob.glob(os.path.join(V, "known", "*.json"))):
        known += json.load(open(f)).get("findings", [])
    out = []
    out.append("### G.1 Properties as built\n")
    out.append("| id | theorems (Props/Cxx.lean) | open statements | fixes (commits in /repo) | known findings (open) |")
    out.append("|---|---|---|---|---|")
    titles = {}
    for l in open(os.path.join(V, "properties.jsonl")):
        p = json.loads(l)
        titles[p["id"]] = p["title"]
    for pid in sorted(titles):
        c = props.get(pid)
        if not c:
            out.append("| %s | (not built yet) | | | |" % pid)
            continue
        th = theorems(pid)
        fx = [k for k in known if k["property"] == pid and k.get("status") == "fixed"]
        op = [k for k in known if k["property"] == pid and k.get("status", "open") == "open"]
        out.append("| %s | %d: %s | %d | %s | %s |" % (
            pid, len(th), ", ".join("`%s`" % t for t in th), len(c.get("open_statements", [])),
            "<br>".join("`%s`" % (k.get("commit", "?")) for k in fx) or "–",
            "<br>".join("`%s`" % k["key"].replace("|", "\\|") for k in op) or "–"))
    out.append("\n### G.2 Genuine defects repaired (`fix:` commits)\n")
    log = subprocess.run(["git", "-C", "/repo", "log", "--reverse", "--format=%h %s", "a20b4a8..HEAD"], capture_output=True, text=True).stdout.strip().split("\n")
    for l in log:
        if l.strip():
            out.append("* `%s`" % l.replace("|", "\\|"))
    out.append("\n### G.3 Known findings (recorded, not repaired)\n")
    for k in known:
        if k.get("status", "open") == "open":
            out.append("* **%s** key `%s` — %s" % (k["property"], k["key"], k["what"]))
    out.append("\n### G.4 Open statements (stated, not proved)\n")
    for pid, c in sorted(props.items()):
        for o in c.get("open_statements", []):
            out.append("* **%s** — %s" % (pid, o))
    out.append("\n### G.5 Seeded changes (independent sub-agents) and which check catches them\n")
    out.append("| seeded change | property | what it needs to manifest | caught by | how |")
    out.append("|---|---|---|---|---|")
    for f in sorted(glob.glob(os.path.join(V, "seeded", "*", "meta.json"))):
        m = json.load(open(f))
        out.append("| %s | %s | %s | %s | %s |" % (os.path.basename(os.path.dirname(f)), m.get("property"), m.get("needs", "").replace("|", "/"),
                                                 m.get("caught_by", "?"), m.get("how", "").replace("|", "/")))
    out.append("\n### G.6 Per property, as built: what is proved, how it is tied to the code, what is trusted\n")
    man = json.load(open(os.path.join(V, "MANIFEST.json")))
    mp = {e["id"]: e for e in man.get("properties", [])} if isinstance(man.get("properties"), list) else {}
    for pid, c in sorted(props.items()):
        out.append("**%s — %s**\n" % (pid, titles.get(pid, "")))
        if c.get("level_text"):
            out.append("* *Claim / level.* " + c["level_text"])
        if c.get("explanation"):
            out.append("* *Theorems.* " + c["explanation"])
        if c.get("rule"):
            out.append("* *Inputs of the correspondence run (differential test, not a proof).* " + c["rule"])
        if c.get("rewrites"):
            out.append("* *Source rewrites mounted by overlay (copy of the current file).* " + "; ".join(
                "`%s` (%d substitution%s)" % (r["file"], len(r["subs"]), "" if len(r["subs"]) == 1 else "s") for r in c["rewrites"]))
        if c.get("assumptions"):
            out.append("* *Assumptions.* " + " | ".join(c["assumptions"]))
        if c.get("trusted_base"):
            out.append("* *Modelled by hand (trusted to the extent the correspondence run validates it).* " + " | ".join(c["trusted_base"]))
        if c.get("level_note"):
            out.append("* *Trusted base.* " + c["level_note"])
        out.append("")
    text = "\n".join(out) + "\n"
    p = os.path.join(V, "DESIGN.md")
    s = open(p).read()
    a, b = "<!-- GENERATED:BEGIN -->", "<!-- GENERATED:END -->"
    if a in s:
        s = s[:s.index(a) + len(a)] + "\n" + text + s[s.index(b):]
    else:
        s += "\n\n## Appendix G — generated from the check definitions (lib/mkdesign.py)\n\n" + a + "\n" + text + b + "\n"
    open(p, "w").write(s)


if __name__ == "__main__":
    main()
