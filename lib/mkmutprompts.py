import json,os,re,glob
props=[json.loads(l) for l in open('/verif/properties.jsonl')]
tmpl=open('/verif/build/mutprompts/C01.txt').read()
# split template: head before 'PROPERTY C01', and tail from 'Set-up'
head=tmpl[:tmpl.index('PROPERTY C01')]
tail=tmpl[tmpl.index('Set-up (do exactly this):'):]
for p in props:
    pid=p['id']; low=pid.lower()
    sites=[]
    for d in sorted(glob.glob('/verif/seeded/%s-*'%pid)):
        try: pt=open(d+'/patch.diff').read()
        except: continue
        fs=set()
        cur=None
        for line in pt.split('\n'):
            m=re.match(r'\+\+\+ b/(.*)',line)
            if m: cur=m.group(1)
            m=re.match(r'@@ .* @@ ?(.*)',line)
            if m and cur:
                fn=m.group(1).strip()
                fn=re.sub(r'\s*\{$','',fn)
                fs.add('%s [%s]'%(cur,fn[:70]))
        sites.append('; '.join(sorted(fs)))
    a=p['anchors']
    mech=a.get('mechanism') or []
    mechs='; '.join('%s (%s)'%(m.get('name',''),m.get('where','')) if isinstance(m,dict) else str(m) for m in mech)
    body='PROPERTY %s — %s\nStatement: %s\nQuantified over: %s\nAnchored in: %s\n'%(pid,p['title'],p['statement'],p['quantifier']['text'],', '.join(a['files']))
    if mechs: body+='Mechanisms: %s\n'%mechs
    body+='\nEarlier testers already changed the following sites (file [enclosing function]); your two changes must be at OTHER functions and use other mechanisms than a plain edit of these, preferably in code that the property depends on indirectly (callers, helpers, the other build-tagged variant of a file, the glue between two components, error paths, rarely used options):\n'
    body+='\n'.join('  - '+s for s in sites if s)+'\n\n'
    t=tail.replace('mut_c01','mut6_'+low).replace('zz_demo_c01_k_test.go','zz_demo6_%s_k_test.go'%low)
    open('/tmp/mutprompts6/%s.txt'%pid,'w').write(head+body+t)
print(open('/tmp/mutprompts6/C03.txt').read())
