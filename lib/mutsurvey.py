#!/usr/bin/env python3
"""lead-only helper: automated mutant survey (sensitivity of the quick checks).

  mutsurvey.py Cxx [--n 40] [--seed 1] [--files f1 f2 ...]

Works in an isolated copy (/tmp/mt/verif + worktree /tmp/mt/repo, VERIF_REPO), never in /repo or
/verif.  For each sampled single-line syntactic mutant of the property's anchored files that still
compiles, runs `./check Cxx --tier quick` there and records killed / survived in
/verif/build/mutsurvey/Cxx.json.  Survivors are triaged by hand (equivalent, harmless for the
property, or a gap to close); this is a test of the machinery, not part of any check.
"""
import argparse
import json
import os
import random
import re
import subprocess
import sys

MT = "/tmp/mt"
ENV = dict(os.environ, GOFLAGS="-mod=mod", GOPROXY="off", GOSUMDB="off", GOTOOLCHAIN="local", VERIF_REPO=MT + "/repo")

OPS = [
    (r"(?<![<>=!])<(?![<=-])", "<="), (r"<=", "<"), (r"(?<![<>=!-])>(?![>=])", ">="), (r">=", ">"),
    (r"==", "!="), (r"!=", "=="), (r"&&", "||"), (r"\|\|", "&&"),
    (r"\+ 1\b", "+ 2"), (r"- 1\b", "- 0"), (r"\+1\b", "+2"), (r"-1\b", "-0"),
    (r"\b0\b", "1"), (r"\b1\b", "0"), (r"\b2\b", "3"), (r"\b4\b", "5"), (r"\b8\b", "7"),
    (r"\+=", "-="), (r"<<", ">>"), (r"\|=", "&="), (r"&\^", "&"),
    (r"\btrue\b", "false"), (r"\bfalse\b", "true"),
]


def sh(cmd, cwd=None, timeout=1200):
    p = subprocess.run(cmd, shell=True, cwd=cwd, env=ENV, capture_output=True, text=True, timeout=timeout)
    return p.returncode, p.stdout + p.stderr


def setup():
    if not os.path.isdir(MT + "/repo"):
        os.makedirs(MT, exist_ok=True)
        rc, out = sh("git -C /repo worktree add --detach %s/repo HEAD" % MT)
        if rc != 0:
            print(out)
            sys.exit(2)
    sh("git -C %s/repo checkout -q --detach $(git -C /repo rev-parse HEAD) && git -C %s/repo reset -q --hard && git -C %s/repo clean -fdq" % (MT, MT, MT))
    sh("mkdir -p %s/verif && rsync -a --delete --exclude .git --exclude build/run --exclude replays --exclude seeded --exclude build/mutsurvey /verif/ %s/verif/" % (MT, MT))


def candidates(path):
    lines = open(path).read().split("\n")
    out = []
    infn = False
    for i, l in enumerate(lines):
        if l.startswith("func "):
            infn = True
        if l.startswith("}"):
            infn = False
        s = l.strip()
        if not infn or not s or s.startswith("//") or s.startswith("func ") or "cout." in s or "bugtrack." in s or ".log." in s or "xerr." in s:
            continue
        code = l.split("//")[0]
        for k, (pat, rep) in enumerate(OPS):
            for m in re.finditer(pat, code):
                # skip matches inside string literals (rough)
                if code[:m.start()].count('"') % 2 == 1 or code[:m.start()].count("`") % 2 == 1 or code[:m.start()].count("'") % 2 == 1:
                    continue
                out.append((i, m.start(), m.end(), rep))
    return lines, out


def main():
    ap = argparse.ArgumentParser()
    ap.add_argument("pid")
    ap.add_argument("--n", type=int, default=40)
    ap.add_argument("--seed", type=int, default=1)
    ap.add_argument("--files", nargs="*")
    a = ap.parse_args()
    setup()
    files = a.files
    if not files:
        for l in open("/verif/properties.jsonl"):
            p = json.loads(l)
            if p["id"] == a.pid:
                files = [f for f in p["anchors"]["files"] if f.endswith(".go")]
    rnd = random.Random(a.seed)
    pool = []
    for f in files:
        path = os.path.join(MT, "repo", f)
        if not os.path.isfile(path):
            continue
        lines, c = candidates(path)
        pool += [(f, x) for x in c]
    rnd.shuffle(pool)
    res = []
    outp = "/verif/build/mutsurvey/%s.json" % a.pid
    os.makedirs(os.path.dirname(outp), exist_ok=True)
    done = 0
    for f, (i, s, e, rep) in pool:
        if done >= a.n:
            break
        path = os.path.join(MT, "repo", f)
        orig = open(path).read()
        lines = orig.split("\n")
        old = lines[i]
        lines[i] = old[:s] + rep + old[e:]
        open(path, "w").write("\n".join(lines))
        pkg = "./" + os.path.dirname(f) + "/"
        rc, out = sh("go build -ldflags=-checklinkname=0 %s && go vet -ldflags=-checklinkname=0 %s 2>&1 | grep -v '^#' | head -0" % (pkg, pkg), cwd=MT + "/repo")
        if rc != 0:
            open(path, "w").write(orig)
            continue
        rc, out = sh("./check %s --tier quick" % a.pid, cwd=MT + "/verif", timeout=1500)
        viol = [l for l in out.split("\n") if l.startswith("VIOLATION")]
        rec = {"file": f, "line": i + 1, "old": old.strip(), "new": lines[i].strip(), "killed": rc != 0, "violations": viol[:2],
               "summary": out.strip().split("\n")[-1][-200:]}
        res.append(rec)
        done += 1
        print("%s %s:%d  %s  =>  %s" % ("KILLED  " if rc != 0 else "SURVIVED", f, i + 1, old.strip()[:70], lines[i].strip()[:70]), flush=True)
        open(path, "w").write(orig)
        json.dump(res, open(outp, "w"), indent=1)
    k = sum(1 for r in res if r["killed"])
    print("%s: %d mutants, %d killed, %d survived" % (a.pid, len(res), k, len(res) - k))


if __name__ == "__main__":
    main()
