#!/usr/bin/env python3
"""lead-only helper: re-run a check against a stored seeded change after the check was strengthened.
  reeval.py <Cxx-k> --how "<what was missing and what was added>" [--prop Cyy]"""
import argparse, json, os, subprocess, sys, time
ap = argparse.ArgumentParser()
ap.add_argument("sid"); ap.add_argument("--how", default=""); ap.add_argument("--prop", default=None)
a = ap.parse_args()
d = os.path.join("/verif/seeded", a.sid)
meta = json.load(open(os.path.join(d, "meta.json")))
pid = a.prop or meta["property"]
if subprocess.run("git -C /repo status --porcelain", shell=True, capture_output=True, text=True).stdout.strip():
    print("/repo not clean"); sys.exit(2)
rc = subprocess.run("git -C /repo apply %s/patch.diff || git -C /repo apply --3way %s/patch.diff" % (d, d), shell=True).returncode
if rc != 0:
    print("patch does not apply"); sys.exit(2)
caught = None
try:
    for tier in (("quick",) if os.environ.get("REEVAL_QUICK_ONLY") else ("quick", "thorough")):
        t0 = time.time()
        p = subprocess.run("./check %s --tier %s" % (pid, tier), shell=True, cwd="/verif", capture_output=True, text=True)
        out = p.stdout + p.stderr
        viol = [l for l in out.split("\n") if l.startswith("VIOLATION")]
        meta["ran"].append({"what": "./check %s --tier %s with the change applied to /repo, after strengthening" % (pid, tier), "rc": p.returncode,
                            "violations": viol[:4], "wall_s": round(time.time() - t0, 1), "summary": out.strip().split("\n")[-1][-300:]})
        print(a.sid, tier, "rc=%d" % p.returncode, viol[:2])
        if p.returncode != 0:
            caught = tier
            break
finally:
    subprocess.run("git -C /repo reset -q --hard HEAD && git -C /repo clean -fdq", shell=True)
if caught:
    meta["first_evaluation"] = meta.get("caught_by")
    meta["caught_by"] = "./check %s --tier %s (after strengthening)" % (pid, caught)
if a.how:
    meta["how"] = a.how
json.dump(meta, open(os.path.join(d, "meta.json"), "w"), indent=1)
print("->", a.sid, meta["caught_by"])
