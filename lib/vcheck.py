#!/usr/bin/env python3
"""Orchestrator for one property check:  ./check Cxx [--tier quick|thorough] [--replay FILE]

Steps (DESIGN §3): build harness against /repo's working tree (hooks via -overlay, tag `verif`) →
regenerate lean/XMT/Generated/Facts.lean → lake build of the property's theorem modules + audit
(#print axioms) + the model driver → run harness (ops / impl answers / direct oracles) → run the
Lean model on the same ops → diff → verdict → evidence/Cxx.json.
"""
import fcntl
import hashlib
import json
import os
import re
import shutil
import subprocess
import sys
import time

VERIF = os.path.dirname(os.path.dirname(os.path.abspath(__file__)))
REPO = os.environ.get("VERIF_REPO", "/repo")
BUILD = os.path.join(VERIF, "build")
LEAN = os.path.join(VERIF, "lean")
GO = os.path.join(VERIF, "go")
ALLOWED_AXIOMS = {"propext", "Classical.choice", "Quot.sound"}

GOENV = dict(os.environ, GOFLAGS="-mod=mod", GOPROXY="off", GOSUMDB="off", GOTOOLCHAIN="local",
             CGO_ENABLED="0")

# Per-property configuration: Lean modules holding the property theorems (Props) and the axioms
# audit, and whether a model differential (ops → xmtmodel) exists.
sys.path.insert(0, os.path.dirname(os.path.abspath(__file__)))
import gen  # noqa: E402

PROPS = gen.load_props()


def log(*a):
    print(*a, file=sys.stderr, flush=True)


class Lock:
    def __init__(self, name):
        os.makedirs(BUILD, exist_ok=True)
        self.f = open(os.path.join(BUILD, name + ".lock"), "w")

    def __enter__(self):
        fcntl.flock(self.f, fcntl.LOCK_EX)

    def __exit__(self, *a):
        fcntl.flock(self.f, fcntl.LOCK_UN)


def run(cmd, cwd=None, env=None, timeout=None, stdin=None, stdout=subprocess.PIPE):
    t0 = time.time()
    try:
        p = subprocess.run(cmd, cwd=cwd, env=env, timeout=timeout, stdin=stdin, stdout=stdout,
                           stderr=subprocess.STDOUT if stdout == subprocess.PIPE else subprocess.PIPE,
                           text=True, errors="replace")
        out = p.stdout if stdout == subprocess.PIPE else (p.stderr or "")
        return p.returncode, out or "", time.time() - t0
    except subprocess.TimeoutExpired as e:
        return 124, "TIMEOUT after %ss\n%s" % (timeout, (e.stdout or b"") if isinstance(e.stdout, str) else ""), time.time() - t0


# ------------------------------------------------------------------------------------------------
# build steps

def write_overlay(extra=None):
    """Overlay: every file under go/hooks/<pkg path>/ is mounted into /repo/<pkg path>/ (the tree
    itself is never edited).  `extra` adds generated replacements (xmtinject output)."""
    ov = {}
    hooks = os.path.join(GO, "hooks")
    for root, _, files in os.walk(hooks):
        for f in files:
            if f.endswith(".go"):
                rel = os.path.relpath(root, hooks)
                ov[os.path.join(REPO, rel, f)] = os.path.join(root, f)
    if extra:
        ov.update(extra)
    path = os.path.join(BUILD, "overlay.json")
    new = json.dumps({"Replace": ov}, indent=1, sort_keys=True)
    if not os.path.exists(path) or open(path).read() != new:
        open(path, "w").write(new)
    return path


def apply_rewrites():
    """Source rewrites requested by lib/props/*.json ("rewrites": [{"file": rel, "subs": [[old, new],..],
    "min_hits": n}]): a copy of the CURRENT /repo file with plain-text substitutions (clock / PRNG
    injection points) is written under build/overlay_src and mounted by -overlay. Returns
    (extra overlay entries, list of problems)."""
    extra, problems = {}, []
    byfile = {}
    for pid, cfg in sorted(PROPS.items()):
        for rw in cfg.get("rewrites", []):
            if rw.get("mount"):
                # a rewritten copy of a repository file mounted at ANOTHER place (a package of the harness
                # module): code of a build variant the harness build does not select (c2/x_ews.go)
                src = os.path.join(REPO, rw["file"])
                try:
                    txt = open(src).read()
                except OSError as e:
                    problems.append((pid, "rewrite %s: %s" % (rw["file"], e)))
                    continue
                if rw.get("extract"):
                    # only the named top-level functions of the file (text from `func name(` to the closing
                    # brace in column 0), behind the given header: a function of a build variant whose file
                    # cannot be mounted as a whole
                    parts, missing = [], []
                    for fn in rw["extract"]:
                        m = re.search(r"^func %s\(.*?^}\n" % re.escape(fn), txt, re.M | re.S)
                        if m:
                            parts.append(m.group(0))
                        else:
                            missing.append(fn)
                    if missing:
                        problems.append((pid, "rewrite for %s: function(s) %s not found in %s" % (pid, ",".join(missing), rw["file"])))
                    txt = rw.get("header", "") + "\n".join(parts)
                hits = 0
                for old, new in rw["subs"]:
                    hits += 1 if old in txt else 0
                    txt = txt.replace(old, new)
                txt += rw.get("append", "")
                if hits < rw.get("min_hits", 1):
                    problems.append((pid, "rewrite for %s no longer applies to %s (%d of %d anchors)" % (pid, rw["file"], hits, rw.get("min_hits", 1))))
                dst = os.path.join(BUILD, "overlay_src", "_mount", rw["mount"])
                os.makedirs(os.path.dirname(dst), exist_ok=True)
                if not os.path.exists(dst) or open(dst).read() != txt:
                    open(dst, "w").write(txt)
                extra[os.path.join(VERIF, rw["mount"])] = dst
                continue
            byfile.setdefault(rw["file"], []).append((pid, rw))
    for rel, rws in sorted(byfile.items()):
        src = os.path.join(REPO, rel)
        try:
            txt = open(src).read()
        except OSError as e:
            problems.append((None, "rewrite %s: %s" % (rel, e)))
            continue
        for pid, rw in rws:
            hits = 0
            for old, new in rw["subs"]:
                hits += txt.count(old)
                txt = txt.replace(old, new)
            if hits < rw.get("min_hits", 1):
                problems.append((pid, "rewrite for %s no longer applies to %s (%d hits)" % (pid, rel, hits)))
        dst = os.path.join(BUILD, "overlay_src", rel)
        os.makedirs(os.path.dirname(dst), exist_ok=True)
        if not os.path.exists(dst) or open(dst).read() != txt:
            open(dst, "w").write(txt)
        extra[src] = dst
    return extra, problems


def build_harness(pid=None):
    """go build of xmth against the current /repo tree. Returns (ok, output, anchors): `anchors` lists
    the injection points (source rewrites) of property `pid` that no longer apply. The build is
    attempted all the same - the rewritten code calls the hooks, not the other way round - so that the
    oracles can still search for a failing input; a lost anchor of ANOTHER property does not concern
    this one (its own check reports it)."""
    with Lock("go"):
        shutil.copyfile(os.path.join(REPO, "go.sum"), os.path.join(GO, "go.sum"))
        extra, problems = apply_rewrites()
        anchors = [m for p, m in problems if p is None or p == pid or pid is None]
        ov = write_overlay(extra)
        gomod = open(os.path.join(GO, "go.mod")).read()
        want = "replace github.com/iDigitalFlame/xmt => %s" % REPO
        if want not in gomod:
            gomod = re.sub(r"replace github.com/iDigitalFlame/xmt => \S+", want, gomod)
            open(os.path.join(GO, "go.mod"), "w").write(gomod)
        rc, out, dt = run(["go", "build", "-tags", "verif", "-overlay", ov, "-ldflags=-checklinkname=0",
                           "-o", os.path.join(BUILD, "xmth"), "./cmd/xmth"], cwd=GO, env=GOENV, timeout=600)
        return rc == 0, out, anchors


def regen_facts():
    """Rewrite Generated/Facts.lean from the current tree (content compared: unchanged text keeps
    lake's cache warm). Returns (ok, output, changed)."""
    rc, out, _ = run([os.path.join(BUILD, "xmth"), "facts", "--repo", REPO], timeout=120)
    if rc != 0:
        return False, out, False
    path = os.path.join(LEAN, "XMT", "Generated", "Facts.lean")
    old = open(path).read() if os.path.exists(path) else ""
    if old != out:
        open(path, "w").write(out)
        return True, "", True
    return True, "", False


def lake_build(targets):
    with Lock("lake"):
        gen.gen_lean()
        rc, out, dt = run(["lake", "build"] + targets, cwd=LEAN, timeout=3000)
    return rc == 0, out, dt


def failing_decls(out):
    """Names of the Lean files/lines that no longer check, from lake's output."""
    errs = []
    for m in re.finditer(r"error: (\S+\.lean):(\d+):(\d+): (.*)", out):
        errs.append({"file": m.group(1), "line": int(m.group(2)), "msg": m.group(4)[:300]})
    res = []
    for e in errs:
        decl = None
        try:
            lines = open(os.path.join(LEAN, e["file"])).read().split("\n")
            for i in range(min(e["line"], len(lines)) - 1, -1, -1):
                mm = re.match(r"\s*(?:private\s+|protected\s+)?(theorem|lemma|def|example|instance|abbrev)\s+(\S+)?", lines[i])
                if mm:
                    decl = (mm.group(1) + " " + (mm.group(2) or "")).strip()
                    break
        except OSError:
            pass
        e["decl"] = decl
        res.append(e)
    return res


def audit_axioms(pid):
    """Run `#print axioms` for every theorem in Props/<pid> (Audit/<pid>.lean is generated from the
    theorem names found in the Props file). Returns (list of {theorem, axioms}, bad list)."""
    props_file = os.path.join(LEAN, "XMT", "Props", pid + ".lean")
    src = open(props_file).read()
    ns = re.search(r"^namespace\s+(\S+)", src, re.M)
    ns = ns.group(1) if ns else ""
    names = re.findall(r"^theorem\s+([A-Za-z_][\w'.]*)", src, re.M)
    audit = os.path.join(LEAN, "XMT", "Audit", pid + ".lean")
    os.makedirs(os.path.dirname(audit), exist_ok=True)  # git-ignored directory: absent in a fresh checkout
    text = "import XMT.Props.%s\n" % pid + "".join("#print axioms %s.%s\n" % (ns, n) for n in names)
    if not os.path.exists(audit) or open(audit).read() != text:
        open(audit, "w").write(text)
    rc, out, _ = run(["lake", "env", "lean", audit], cwd=LEAN, timeout=900)
    res, bad = [], []
    seen = set()
    for m in re.finditer(r"'([^']+)' depends on axioms: \[([^\]]*)\]", out.replace("\n", " ")):
        ax = [a.strip() for a in m.group(2).split(",") if a.strip()]
        res.append({"theorem": m.group(1), "axioms": ax})
        seen.add(m.group(1))
        if not set(ax) <= ALLOWED_AXIOMS:
            bad.append({"theorem": m.group(1), "axioms": ax})
    for m in re.finditer(r"'([^']+)' does not depend on any axioms", out):
        res.append({"theorem": m.group(1), "axioms": []})
        seen.add(m.group(1))
    missing = [n for n in names if (ns + "." + n) not in seen]
    if rc != 0 or missing:
        bad.append({"theorem": ",".join(missing) or "?", "axioms": ["<audit failed>"], "output": out[-2000:]})
    return res, bad, names


def grep_forbidden(pid):
    """sorry/admit/axiom/native_decide/... anywhere in the Lean sources (comments stripped)."""
    hits = []
    pat = re.compile(r"\b(sorry|admit|native_decide|bv_decide|implemented_by|unsafe)\b|^\s*axiom\s|maxHeartbeats\s+0")
    for root, _, files in os.walk(os.path.join(LEAN, "XMT")):
        for f in files:
            if not f.endswith(".lean"):
                continue
            p = os.path.join(root, f)
            txt = open(p).read()
            txt = re.sub(r"/-.*?-/", lambda m: "\n" * m.group(0).count("\n"), txt, flags=re.S)
            for i, line in enumerate(txt.split("\n"), 1):
                line = line.split("--")[0]
                if pat.search(line):
                    hits.append("%s:%d: %s" % (os.path.relpath(p, LEAN), i, line.strip()[:120]))
    return hits


# ------------------------------------------------------------------------------------------------
# known findings

def load_known():
    p = os.path.join(VERIF, "known_findings.json")
    if not os.path.exists(p):
        return []
    res = json.load(open(p)).get("findings", [])
    import glob
    for f in sorted(glob.glob(os.path.join(VERIF, "known", "*.json"))):
        res += json.load(open(f)).get("findings", [])
    return res


def match_known(known, pid, key):
    for k in known:
        if k.get("status", "open") != "open":
            continue  # "fixed" entries suppress nothing
        if k["property"] == pid and re.fullmatch(k["key"], key):
            return k
    return None


# ------------------------------------------------------------------------------------------------

def write_replay(pid, kind, payload):
    os.makedirs(os.path.join(VERIF, "replays"), exist_ok=True)
    h = hashlib.sha256(json.dumps(payload, sort_keys=True, default=str).encode()).hexdigest()[:12]
    path = os.path.join(VERIF, "replays", "%s-%s-%s.json" % (pid, kind, h))
    json.dump(payload, open(path, "w"), indent=1, default=str)
    return path


def main(argv):
    import argparse
    ap = argparse.ArgumentParser()
    ap.add_argument("pid")
    ap.add_argument("--tier", default=os.environ.get("VERIF_TIER", "quick"))
    ap.add_argument("--replay")
    ap.add_argument("--seed", type=int, default=None)
    args = ap.parse_args(argv)
    pid = args.pid
    if pid not in PROPS:
        log("unknown property", pid)
        return 2
    cfg = PROPS[pid]
    tier = args.tier if args.tier in ("quick", "thorough") else "quick"
    seed = args.seed if args.seed is not None else int(os.environ.get("VERIF_SEED", "1") or 1)
    only = None
    if args.replay:
        rp = json.load(open(args.replay))
        seed = rp.get("seed", seed)
        tier = rp.get("tier", tier)
        only = rp.get("case")
    t0 = time.time()
    os.makedirs(BUILD, exist_ok=True)
    violations = []      # (replay_path, suffix)
    known_lines = []
    broken = []          # proof / tie / correspondence breaks: dicts
    known = load_known()
    notes = {}

    # 1. harness build
    ok, out, anchors = build_harness(pid)
    if anchors:
        broken.append({"what": "rewrite-anchor", "detail": "\n".join(anchors)[-3000:],
                       "names": ["correspondence: " + a for a in anchors[:5]]})
    if not ok:
        broken.append({"what": "harness-build", "detail": out[-3000:],
                       "names": ["correspondence: harness no longer builds against /repo"]})
    facts_ok = False
    if ok:
        facts_ok, fout, changed = regen_facts()
        notes["facts_changed"] = changed
        if not facts_ok:
            broken.append({"what": "facts", "detail": fout[-3000:], "names": ["tie: xmth facts failed"]})

    # 2. lean build (theorems + driver)
    targets = ["XMT.Props." + pid, "xmtmodel"] + cfg.get("extra_targets", [])
    lok, lout, ldt = lake_build(targets)
    notes["lake_s"] = round(ldt, 1)
    theorems, bad_ax, names = [], [], []
    if not lok:
        decls = failing_decls(lout)
        broken.append({"what": "lean-build", "detail": lout[-4000:],
                       "names": ["%s:%s %s" % (d["file"], d["line"], d["decl"] or "") for d in decls] or ["lake build failed"]})
    else:
        theorems, bad_ax, names = audit_axioms(pid)
        if bad_ax:
            broken.append({"what": "axioms", "detail": json.dumps(bad_ax)[:3000],
                           "names": ["axiom audit: " + b["theorem"] for b in bad_ax]})
    forb = grep_forbidden(pid)
    if forb:
        broken.append({"what": "forbidden-constructs", "detail": "\n".join(forb[:20]), "names": forb[:5]})
    if tier == "thorough" and lok:
        rc, out, dt = run(["lake", "env", "leanchecker", "XMT.Props." + pid], cwd=LEAN, timeout=3000)
        notes["leanchecker"] = "ok" if rc == 0 else out[-500:]
        if rc != 0:
            broken.append({"what": "leanchecker", "detail": out[-2000:], "names": ["leanchecker XMT.Props." + pid]})

    # 3. harness run + model run + diff
    stats = {}
    ndiff = 0
    first_diffs = []
    oracle_fails = []
    rundir = os.path.join(BUILD, "run", "%s-%s-%d-%d" % (pid, tier, seed, os.getpid()))
    if ok:
        # run directories kept after a violation are scratch: drop those older than two hours
        rroot = os.path.join(BUILD, "run")
        if os.path.isdir(rroot):
            for d in os.listdir(rroot):
                dp = os.path.join(rroot, d)
                try:
                    if time.time() - os.path.getmtime(dp) > 7200:
                        shutil.rmtree(dp, ignore_errors=True)
                except OSError:
                    pass
        shutil.rmtree(rundir, ignore_errors=True)
        os.makedirs(rundir)
        seeds = [seed]
        if tier == "thorough":
            seeds = [seed + 1000 * k for k in range(cfg.get("thorough_seeds", 4))]
        procs = []
        for s in seeds:
            d = os.path.join(rundir, "s%d" % s)
            cmd = [os.path.join(BUILD, "xmth"), pid, "--out", d, "--seed", str(s), "--tier", tier]
            if only is not None:
                cmd += ["--only", str(only)]
            env = dict(os.environ, GOMEMLIMIT=cfg.get("gomemlimit", "6GiB"), VERIF_REPO=REPO, VERIF_BUILD=BUILD, **{k: GOENV[k] for k in ("GOFLAGS", "GOPROXY", "GOSUMDB", "GOTOOLCHAIN")})
            procs.append((s, d, subprocess.Popen(cmd, stdout=subprocess.PIPE, stderr=subprocess.STDOUT, text=True, errors="replace", env=env, cwd=GO)))
        tmo = cfg.get("timeout_thorough", 3000) if tier == "thorough" else cfg.get("timeout_quick", 900)
        for s, d, p in procs:
            try:
                hout, _ = p.communicate(timeout=tmo)
            except subprocess.TimeoutExpired:
                p.kill()
                hout, _ = p.communicate()
                hout = (hout or "") + "\nTIMEOUT"
            if p.returncode != 0:
                # the harness process itself died (fatal runtime error / timeout): that is an
                # implementation failure on some op — report with the tail of the output.
                oracle_fails.append({"property": pid, "case": -1, "kind": "harness-crash", "key": "crash:" + crash_sig(hout),
                                     "detail": hout[-3000:], "input": {"seed": s}, "seed": s})
            sp = os.path.join(d, "stats.json")
            if os.path.exists(sp):
                st = json.load(open(sp))
                merge_stats(stats, st)
            op = os.path.join(d, "oracle.jsonl")
            if os.path.exists(op):
                for line in open(op):
                    try:
                        f = json.loads(line)
                        f["seed"] = s
                        oracle_fails.append(f)
                    except ValueError:
                        pass
            # model differential
            opsf = os.path.join(d, "ops.txt")
            if lok and cfg.get("model", True) and os.path.exists(opsf) and os.path.getsize(opsf) > 0:
                mo = os.path.join(d, "model.out")
                with open(opsf) as fi, open(mo, "w") as fo:
                    mp = subprocess.run([os.path.join(LEAN, ".lake", "build", "bin", "xmtmodel")], stdin=fi, stdout=fo, stderr=subprocess.PIPE, timeout=3000)
                if mp.returncode != 0:
                    broken.append({"what": "model-driver", "detail": mp.stderr.decode(errors="replace")[-2000:], "names": ["xmtmodel crashed"]})
                n, firsts = diff_files(opsf, os.path.join(d, "impl.out"), mo, s)
                ndiff += n
                first_diffs += firsts
    if first_diffs:
        broken.append({"what": "correspondence", "detail": json.dumps(first_diffs[:5])[:4000],
                       "names": ["correspondence %s: model and implementation differ on op `%s`" % (pid, first_diffs[0]["op"][:160])],
                       "diffs": first_diffs[:20]})

    # 3b. a proof / tie / correspondence broke but the quick-tier oracles found no failing input:
    # search harder (thorough-tier generators, two seeds) before reporting no-failing-input-found.
    if broken and ok and not [f for f in oracle_fails if not match_known(known, pid, f["key"])] and tier == "quick" and only is None:
        notes["escalated_search"] = True
        for s in (seed, seed + 7919):
            d = os.path.join(rundir, "esc%d" % s)
            cmd = [os.path.join(BUILD, "xmth"), pid, "--out", d, "--seed", str(s), "--tier", "thorough"]
            env = dict(os.environ, GOMEMLIMIT=cfg.get("gomemlimit", "6GiB"), VERIF_REPO=REPO, VERIF_BUILD=BUILD, **{k: GOENV[k] for k in ("GOFLAGS", "GOPROXY", "GOSUMDB", "GOTOOLCHAIN")})
            rc, hout, _ = run(cmd, cwd=GO, env=env, timeout=cfg.get("timeout_escalate", 600))
            if rc != 0:
                oracle_fails.append({"property": pid, "case": -1, "kind": "harness-crash", "key": "crash:" + crash_sig(hout),
                                     "detail": hout[-3000:], "input": {"seed": s, "tier": "thorough"}, "seed": s})
            op = os.path.join(d, "oracle.jsonl")
            if os.path.exists(op):
                for line in open(op):
                    try:
                        f = json.loads(line)
                        f["seed"] = s
                        f["tier"] = "thorough"
                        oracle_fails.append(f)
                    except ValueError:
                        pass
            sp = os.path.join(d, "stats.json")
            if os.path.exists(sp):
                notes["escalated_evaluations"] = notes.get("escalated_evaluations", 0) + json.load(open(sp)).get("evaluations", 0)

    # 4. verdict
    # (a) direct oracle failures = concrete failing inputs
    groups = {}
    for f in oracle_fails:
        groups.setdefault(f["key"], []).append(f)
    unknown_groups = {}
    for key, fs in sorted(groups.items()):
        k = match_known(known, pid, key)
        if k:
            known_lines.append("KNOWN-FINDING: property=%s %s" % (pid, k["what"]))
        else:
            unknown_groups[key] = fs
    for key, fs in unknown_groups.items():
        f = min(fs, key=lambda x: len(json.dumps(x.get("input"), default=str)))
        payload = {"property": pid, "seed": f.get("seed", seed), "tier": f.get("tier", tier), "case": f.get("case"), "kind": f["kind"], "key": key,
                   "detail": f["detail"], "input": f.get("input"), "occurrences": len(fs),
                   "implicated": [n for b in broken for n in b["names"]][:10],
                   "replay_cmd": "./check %s --replay <this file>" % pid}
        violations.append((write_replay(pid, "input", payload), ""))
    # (b) broken proof/tie/correspondence with no concrete failing input found by the oracles
    if broken and not unknown_groups:
        # a known finding explains a correspondence break only if it was matched by key above AND the
        # break is of kind "correspondence"; proofs and ties must always check.
        payload = {"property": pid, "seed": seed, "tier": tier, "no_longer_checks": [n for b in broken for n in b["names"]],
                   "breaks": broken, "searched": {"evaluations": stats.get("evaluations", 0), "oracle_failures": len(oracle_fails)},
                   "note": "a theorem, tie obligation or the model/implementation correspondence no longer checks; the oracle search over the generated inputs found no input on which the property itself fails"}
        violations.append((write_replay(pid, "broken", payload), " no-failing-input-found"))
    # stale known findings
    stale = []
    for k in known:
        if k["property"] == pid and k.get("status", "open") == "open" and k.get("expect_every_run") and not any(re.fullmatch(k["key"], key) for key in groups):
            stale.append(k["key"])
    wall = time.time() - t0

    # 5. evidence
    obligations = len(names) + len(cfg.get("tie_obligations", []))
    discharged = 0
    if lok:
        badset = {b["theorem"] for b in bad_ax}
        discharged = len([t for t in theorems if t["theorem"] not in badset]) + len(cfg.get("tie_obligations", []))
    open_statements = cfg.get("open_statements", [])
    ev = {
        "property_id": pid, "tier": tier, "seed": seed, "level": "proof",
        "coverage": {
            # obligations = theorems of Props/<id> + tie obligations, each kernel-checked and axiom-audited on
            # this run; statements that are NOT proved (full-strength forms that are false of the code and
            # recorded as known findings, or still open) are listed separately and are not counted as proved.
            "obligations": obligations, "discharged": discharged,
            "open_statements": open_statements, "open_statement_count": len(open_statements),
            "checker_cmd": "cd lean && lake build %s && lake env lean XMT/Audit/%s.lean%s" % (" ".join(targets), pid, " && lake env leanchecker XMT.Props.%s" % pid if tier == "thorough" else ""),
            "trusted_base": cfg.get("trusted_base", []) + ["Lean 4.33.0 kernel", "axioms: propext, Classical.choice, Quot.sound only (audited by #print axioms on this run)",
                                                           "hand-written model tied to /repo by (i) regenerated Facts.lean, (ii) differential run xmth<->xmtmodel, (iii) direct oracles on the real code"],
            "theorems": theorems,
            "evaluations": stats.get("evaluations", 0), "distinct_nontrivial": stats.get("distinct_nontrivial", 0),
            "rule": cfg.get("rule", ""), "samples": stats.get("samples", [])[:8] or ["(no harness run)"],
            "model_ops_compared": stats.get("op_lines", 0), "model_disagreements": ndiff,
            "disagreements_checked": ndiff,
            "distribution": stats.get("distribution", {}), "extra": stats.get("extra", {}),
            "oracle_failures": len(oracle_fails), "known_findings_printed": known_lines,
            "stale_known_findings": stale, "notes": notes,
            "explanation": cfg.get("explanation", ""),
        },
        "assumptions": cfg.get("assumptions", []),
        "wall_s": round(wall, 2), "violations": len(violations),
    }
    os.makedirs(os.path.join(VERIF, "evidence"), exist_ok=True)
    json.dump(ev, open(os.path.join(VERIF, "evidence", pid + ".json"), "w"), indent=1)
    for l in sorted(set(known_lines)):
        print(l)
    for path, suffix in violations[:6]:
        print("VIOLATION property=%s replay=%s%s" % (pid, path, suffix))
    if len(violations) > 6:
        log("(%d further violation replays written under replays/)" % (len(violations) - 6))
    if stale:
        log("note: known findings not reproduced this run (stale?):", stale)
    log("%s %s seed=%d: theorems=%d/%d evals=%s model-ops=%s diffs=%d oracle-fails=%d violations=%d wall=%.1fs" % (
        pid, tier, seed, discharged, obligations, stats.get("evaluations"), stats.get("op_lines"), ndiff, len(oracle_fails), len(violations), wall))
    if not violations and os.path.isdir(rundir):
        shutil.rmtree(rundir, ignore_errors=True)
    return 1 if violations else 0


def crash_sig(out):
    m = re.search(r"(panic: [^\n]*|fatal error: [^\n]*|TIMEOUT)", out)
    s = m.group(1) if m else "exit"
    return re.sub(r"0x[0-9a-f]+|\d+", "N", s)[:80]


def merge_stats(acc, st):
    for k in ("evaluations", "op_lines", "distinct_nontrivial", "failures"):
        acc[k] = acc.get(k, 0) + st.get(k, 0)
    d = acc.setdefault("distribution", {})
    for k, v in (st.get("distribution") or {}).items():
        d[k] = d.get(k, 0) + v
    acc.setdefault("samples", [])
    acc["samples"] += st.get("samples") or []
    ex = acc.setdefault("extra", {})
    for k, v in (st.get("extra") or {}).items():
        if isinstance(v, (int, float)) and isinstance(ex.get(k, 0), (int, float)):
            ex[k] = ex.get(k, 0) + v
        else:
            ex[k] = v


def diff_files(opsf, implf, modelf, seed):
    ops = open(opsf).read().split("\n")
    impl = open(implf).read().split("\n")
    model = open(modelf).read().split("\n")
    n = 0
    firsts = []
    for i in range(min(len(impl), len(model))):
        if impl[i] != model[i]:
            n += 1
            if len(firsts) < 20:
                firsts.append({"line": i + 1, "seed": seed, "op": (ops[i] if i < len(ops) else "")[:2000], "impl": impl[i][:1000], "model": model[i][:1000]})
    if len(impl) != len(model):
        n += abs(len(impl) - len(model))
        firsts.append({"line": -1, "seed": seed, "op": "(line count mismatch)", "impl": str(len(impl)), "model": str(len(model))})
    return n, firsts


if __name__ == "__main__":
    sys.exit(main(sys.argv[1:]))
