#!/bin/sh
# Offline setup: build the Lean project (models, theorems, driver) and the Go harness.
set -e
here=$(cd "$(dirname "$0")" && pwd)
cd "$here"
mkdir -p build evidence replays lean/XMT/Audit
export GOFLAGS=-mod=mod GOPROXY=off GOSUMDB=off GOTOOLCHAIN=local CGO_ENABLED=0
python3 lib/gen.py
python3 - <<'PY'
import sys, os
sys.path.insert(0, os.path.join(os.getcwd(), "lib"))
import vcheck
ok, out, anchors = vcheck.build_harness()
print("harness build:", "ok" if ok else out)
if anchors:
    print("injection points that no longer apply:", anchors)
if ok:
    print("facts:", vcheck.regen_facts()[:2])
PY
(cd lean && lake build 2>&1 | tail -5)
